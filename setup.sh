#!/bin/bash
# MANIFEST.setup_cmd: offline dependency check / installation. Idempotent.
here="$(cd "$(dirname "${BASH_SOURCE[0]}")" && pwd)"
cd "$here" || exit 2
PY=/venv/bin/python
WH=/opt/veriftools/wheels
mkdir -p .deps evidence replays
need=""
for m in hypothesis jsonschema; do
  if ! PYTHONPATH="$here/.deps" $PY -c "import $m" 2>/dev/null; then need="$need $m"; fi
done
if [ -n "$need" ]; then
  PIP_NO_INDEX=1 /venv/bin/pip install --no-index --find-links "$WH" --target "$here/.deps" $need || exit 2
fi
# atheris is optional (thorough tiers of the text/byte properties); absence is tolerated.
if ! PYTHONPATH="$here/.deps" $PY -c "import atheris" 2>/dev/null; then
  PIP_NO_INDEX=1 /venv/bin/pip install --no-index --find-links "$WH" --target "$here/.deps" atheris >/dev/null 2>&1 \
    || echo "setup: atheris not installable; thorough tiers fall back to Hypothesis only"
fi
PYTHONPATH="/repo:$here:$here/.deps" $PY -c "import hypothesis, jsonschema, redun; print('setup ok: hypothesis', hypothesis.__version__)" || exit 2
