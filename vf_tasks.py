"""Generic redun tasks used by generated programs (top-level module: importable by process-mode
workers and by pickles). One task, `node(ast, env)`, whose body is `return comp(ast, env)`, yields
arbitrarily deep job trees from a JSON AST. See vf/lab/progs.py for the AST and its reference
interpreter."""
from __future__ import annotations

import operator

from redun import Handle, task
from redun.expression import Expression
from redun.functools import apply_func, flat_map, map_, seq
from redun.scheduler import apply_tags, catch, catch_all, cond, fork_thread, join_thread, throw

import vf_types as T
from vf_types import LockErr, VErr

redun_namespace = "vf"

ERR = {"ValueError": ValueError, "KeyError": KeyError, "ZeroDivisionError": ZeroDivisionError,
       "VErr": VErr, "LockErr": LockErr, "Exception": Exception, "LookupError": LookupError, "ArithmeticError": ArithmeticError}

# Semantics of the lazy operators (what redun.expression registers), always "left OP right".
SEM = {
    "add": operator.add, "sub": operator.sub, "mul": operator.mul, "div": operator.truediv,
    "eq": operator.eq, "ne": operator.ne, "lt": operator.lt, "le": operator.le,
    "gt": operator.gt, "ge": operator.ge,
    "and": lambda a, b: a and b, "or": lambda a, b: a or b,
}
PYOP = {
    "add": operator.add, "sub": operator.sub, "mul": operator.mul, "div": operator.truediv,
    "eq": operator.eq, "ne": operator.ne, "lt": operator.lt, "le": operator.le,
    "gt": operator.gt, "ge": operator.ge, "and": operator.and_, "or": operator.or_,
}


# ---- plain python functions for apply_func (must be module-level)
def py_sum(xs):
    return sum(xs)


def py_len(xs):
    return len(xs)


def py_neg(x):
    return -x


def py_pair(a, b=0):
    return [a, b]


def py_err_info(e):
    return [type(e).__name__, str(e)]


def py_count_errors(xs):
    return sum(1 for x in xs if isinstance(x, Exception))


def py_boom(x):
    raise ValueError(f"boom{x}")


PYF = {"sum": py_sum, "len": py_len, "neg": py_neg, "pair": py_pair, "err_info": py_err_info,
       "count_errors": py_count_errors, "boom": py_boom}

class VH(Handle):
    """A handle whose state is opaque to the tests (only its lineage matters)."""

    def __init__(self, name, namespace=None):
        self.label = name


CALLS: list = []   # (task name, ast digest) — call log for in-process (thread / controlled) runs


@task(name="ident")
def ident(x):
    return x


def _pick(opts):
    """The task object to call for a `task` node, by options."""
    t = {"node": node, "pnode": pnode, "anode": anode, "dnode": dnode, "cnode": cnode, "onode": onode,
         "xnode": xnode, "gnode": gnode}[opts.get("t", "node")]
    o = {}
    for k in ("executor", "limits", "cache", "cache_scope", "check_valid", "nout", "prov", "tags", "mode"):
        if k in opts:
            o[k] = opts[k]
    if o:
        t = t.options(**o)
    if "export" in opts:
        t = t.export_options(**opts["export"])
    if "ctx" in opts:
        t = t.update_context(opts["ctx"])
    return t


def _partial(body, binds):
    """The partial task for a map / catch / callv body. With bound variables the partial binds its
    arguments BY KEYWORD (kelem.partial(ast=.., env=..)), without any positionally (elem.partial(body,
    {})): both ways of building a partial task are part of the grammar."""
    if binds:
        return kelem.partial(ast=body, env=binds)
    return elem.partial(body, {})


def _lazy(x):
    return x if isinstance(x, Expression) else ident(x)


def comp(ast, env):
    """Compile an AST into a redun expression tree (runs inside task bodies)."""
    k = ast[0]
    if k == "lit":
        return _build(ast[1])
    if k == "var":
        return env[ast[1]]
    if k == "list":
        return [comp(a, env) for a in ast[1]]
    if k == "tuple":
        return tuple(comp(a, env) for a in ast[1])
    if k == "set":
        return {comp(a, env) for a in ast[1]}
    if k == "dict":
        return {key: comp(v, env) for key, v in ast[1]}
    if k == "nt":
        return T.Point(comp(ast[1], env), comp(ast[2], env))
    if k == "dc":
        return T.Rec(a=comp(ast[1], env), b=comp(ast[2], env))
    if k == "task":
        body, binds, opts = ast[1], ast[2], ast[3]
        envd = {n: comp(b, env) for n, b in binds.items()}
        t = _pick(opts)
        if "options" in opts:   # arbitrary call-time options
            t = t.options(**opts["options"])
        if "optexpr" in opts:   # call-time options whose values are expressions
            t = t.options(**{key: comp(v, env) for key, v in opts["optexpr"].items()})
        if "ctxe" in opts:      # context override whose values are expressions
            t = t.update_context(**{key: comp(v, env) for key, v in opts["ctxe"].items()})
        if "d" in opts:
            return t(body, envd, d=comp(opts["d"], env))
        return t(body, envd)
    if k == "ptask":   # partial application, then call
        body, binds, opts = ast[1], ast[2], ast[3]
        pt = _pick(opts).partial(body)
        for c in opts.get("pctx", []):      # update_context chained AFTER the partial application
            pt = pt.update_context(c)
        return pt({n: comp(b, env) for n, b in binds.items()})
    if k == "nout":
        body, binds, n, i = ast[1], ast[2], ast[3], ast[4]
        e = node.options(nout=n)(body, {nm: comp(b, env) for nm, b in binds.items()})
        parts = list(e)
        return parts[i]
    if k == "op":
        a, b = comp(ast[2], env), comp(ast[3], env)
        if not isinstance(a, Expression) and not isinstance(b, Expression):
            a = ident(a)
        return PYOP[ast[1]](a, b)
    if k == "getitem":
        return _lazy(comp(ast[1], env))[ast[2]]
    if k == "getattr":
        return getattr(_lazy(comp(ast[1], env)), ast[2])
    if k == "let":
        env2 = dict(env)
        env2[ast[1]] = comp(ast[2], env)
        return comp(ast[3], env2)
    if k == "cond":
        return cond(*[comp(a, env) for a in ast[1]])
    if k == "seq":
        return seq([comp(a, env) for a in ast[1]])
    if k == "catch":
        expr, kinds, body, binds = ast[1], ast[2], ast[3], ast[4]
        classes = tuple(ERR[c] for c in kinds)
        if len(classes) == 1:
            classes = classes[0]
        recover = _partial(body, {n: comp(b, env) for n, b in binds.items()})
        return catch(comp(expr, env), classes, recover)
    if k == "catch_all":
        items, kinds, body = ast[1], ast[2], ast[3]
        exprs = [comp(a, env) for a in items]
        if body is None:
            return catch_all(exprs)
        return catch_all(exprs, tuple(ERR[c] for c in kinds), elem.partial(body, {}))
    if k == "map":
        body, binds, xs = ast[1], ast[2], ast[3]
        return map_(_partial(body, {n: comp(b, env) for n, b in binds.items()}), comp(xs, env))
    if k == "map2":   # map_(g, map_(f, xs)): exercises the fusion of nested maps
        g, f, xs = ast[1], ast[2], ast[3]
        return map_(elem.partial(g, {}), map_(elem.partial(f, {}), comp(xs, env)))
    if k == "flat_map":
        body, xs = ast[1], ast[2]
        return flat_map(elem.partial(body, {}), comp(xs, env))
    if k == "apply":
        return apply_func(PYF[ast[1]], *[comp(a, env) for a in ast[2]])
    if k == "fork_join":
        return join_thread(fork_thread(comp(ast[1], env)))
    if k == "tags":
        return apply_tags(comp(ast[1], env), tags=[tuple(t) for t in ast[2]], job_tags=[tuple(t) for t in ast[3]])
    if k == "throw":
        return throw(ERR[ast[1]](ast[2]))
    if k == "raise_now":
        raise ERR[ast[1]](ast[2])
    if k == "callv":   # lazily call a task value: fnode evaluates to a (partial) task
        f = _lazy(comp(ast[1], env))
        return f(*[comp(a, env) for a in ast[2]])
    if k == "mkpartial":   # a partial task as a value
        return _partial(ast[1], {n: comp(b, env) for n, b in ast[2].items()})
    if k == "mkfile":
        return mkfile(ast[1], ast[2])
    if k == "subrun":
        from redun.scheduler import subrun

        return subrun(comp(ast[1], env), executor="default", new_execution=ast[2], **ast[3])
    if k == "handle":
        return VH(ast[1])
    if k == "use":
        t = use.options(**ast[3]) if len(ast) > 3 and ast[3] else use
        return t(comp(ast[1], env), comp(ast[2], env))
    if k == "peek":
        return peek(comp(ast[1], env))
    if k == "getctx":
        from redun.context import get_context

        return get_context(ast[1], ast[2])
    raise ValueError(f"unknown node {k}")


def _build(spec):
    return T.build(spec)


def _log(name, ast):
    CALLS.append((name, repr(ast)[:80]))


FILE_ROOT = {"dir": None}


@task(name="mkfile")
def mkfile(name, content):
    """Writes a file under the harness scratch root and returns it as a redun File value."""
    import os

    from redun import File

    path = os.path.join(FILE_ROOT["dir"], name)
    with open(path, "w") as f:
        f.write(str(content))
    return File(path)


@task(name="use")
def use(h, x):
    """Takes a handle (forked on the way in) and returns it (advanced on the way out)."""
    _log("use", x)
    return h


@task(name="peek")
def peek(h):
    return h.label


@task(name="node")
def node(ast, env):
    _log("node", ast)
    return comp(ast, env)


@task(name="pnode", executor="process")
def pnode(ast, env):
    return comp(ast, env)


@task(name="anode", cache=False)
async def anode(ast, env):
    e = comp(ast, env)
    if isinstance(e, Expression):
        return await e
    return e


@task(name="dnode")
def dnode(ast, env, d=ident(7), d2=node(["op", "add", ["lit", ["int", 1]], ["lit", ["int", 2]]], {})):
    """Task with expression-valued default arguments (available as vars d and d2)."""
    _log("dnode", ast)
    env2 = dict(env)
    env2["d"] = d
    env2["d2"] = d2
    return comp(ast, env2)


@task(name="onode", memory=1, vcpus=2, flavor="def")
def onode(ast, env):
    """Task with definition-time options."""
    _log("onode", ast)
    return comp(ast, env)


@task(name="xnode", export_options={"memory": 8, "zone": "z-def"}, flavor="xdef")
def xnode(ast, env):
    """Task that exports options at definition time."""
    _log("xnode", ast)
    return comp(ast, env)


def _gc(path, default=None):
    from redun.context import get_context

    return get_context(path, default)


@task(name="cnode")
def cnode(ast, env, c=_gc("a", "none"), c2=_gc("b.x", 0)):
    """Task whose default arguments read the context (available as vars c and c2)."""
    _log("cnode", ast)
    env2 = dict(env)
    env2["c"] = c
    env2["c2"] = c2
    return comp(ast, env2)


G_BODY = ["list", [["getctx", "a", 0], ["getctx", "b.x", "d"]]]


@task(name="gnode")
def gnode(ast, env, g=node(G_BODY, {})):
    """Task whose default argument is a TASK CALL that reads the context (available as var g): that
    call runs as a job of its own, under the context of the gnode call it belongs to."""
    _log("gnode", ast)
    env2 = dict(env)
    env2["g"] = g
    return comp(ast, env2)


@task(name="kelem")
def kelem(x, ast=None, env=None):
    """elem with the element first, so that a partial can bind ast and env by keyword."""
    _log("kelem", ast)
    env2 = dict(env)
    env2["x"] = x
    return comp(ast, env2)


@task(name="elem")
def elem(ast, env, x):
    """Task applied to one element / one error: the body sees it as var `x`."""
    _log("elem", ast)
    env2 = dict(env)
    env2["x"] = x
    return comp(ast, env2)
