"""Importable user type whose serialised bytes live in a file (redun.value.FileCache), for C31.

`BlobType.base_path` is pointed at a scratch directory by the check before use."""
from redun.value import FileCache


class Blob:
    def __init__(self, data):
        self.data = data

    def __eq__(self, other):
        return type(other) is Blob and other.data == self.data

    def __hash__(self):
        return hash(("Blob", self.data))

    def __repr__(self):
        return f"Blob({self.data!r:.40})"


class BlobType(FileCache):
    type = Blob
    base_path = "/nonexistent/vf-c31-unset"
