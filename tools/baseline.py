#!/usr/bin/env python3
"""Run the repository's pinned test suite and compare with /root/.vp/BASELINE.json stable_pass.
usage: baseline.py [repo_dir]   (exit 0 iff every stable_pass test passed)"""
import json, os, subprocess, sys, tempfile, xml.etree.ElementTree as ET
repo = sys.argv[1] if len(sys.argv) > 1 else "/repo"
base = json.load(open("/root/.vp/BASELINE.json"))
out = tempfile.mktemp(suffix=".xml")
env = dict(os.environ); env.pop("REDUN_VERIF", None)
subprocess.run(["/venv/bin/python", "-m", "pytest", "-q", "-p", "no:cacheprovider", "--timeout=900",
                "--continue-on-collection-errors", f"--junitxml={out}", "-x" if False else "-q"],
               cwd=repo, env=env, stdout=subprocess.DEVNULL, stderr=subprocess.DEVNULL)
passed = set()
for tc in ET.parse(out).getroot().iter("testcase"):
    if not any(c.tag in ("failure", "error", "skipped") for c in tc):
        passed.add(f"{tc.get('classname')}::{tc.get('name')}")
os.remove(out)
missing = [t for t in base["stable_pass"] if t not in passed]
print(f"passed={len(passed)} stable_pass={len(base['stable_pass'])} missing={len(missing)}")
for t in missing[:40]: print("  MISSING", t)
sys.exit(1 if missing else 0)
