#!/bin/bash
# Runs every mutant and every seeded change through its quick check; writes mutants/RESULTS.txt
cd /verif
out=mutants/RESULTS.txt
: > $out.tmp
for f in mutants/C*.json; do
  id=$(basename $f .json)
  PYTHONPATH=/verif:/verif/.deps /venv/bin/python -m vf.selftest $id --jobs=${JOBS:-6} 2>&1 | grep -E "^C[0-9]+ " >> $out.tmp
done
sort -u $out.tmp > $out; rm -f $out.tmp
echo "caught: $(grep -c CAUGHT $out)  missed: $(grep -c MISSED $out)  error: $(grep -c ERROR $out)"
grep -E "MISSED|ERROR" $out
