#!/bin/bash
# usage: run_all.sh quick|thorough [ids...]  — run every (or the given) check, print one line each
tier=${1:-quick}; shift
ids="$@"
[ -z "$ids" ] && ids=$(python3 -c "import json; print(' '.join(c['property_id'] for c in json.load(open('/verif/MANIFEST.json'))['checks']))")
cd /verif
for id in $ids; do
  s=$(date +%s)
  out=$(./check $id --tier $tier 2>&1); rc=$?
  e=$(date +%s)
  echo "$id rc=$rc $((e-s))s $(echo "$out" | grep -E "^$id (quick|thorough)" | tail -1 | sed 's/.*evaluations/evaluations/') $(echo "$out" | grep -c '^KNOWN-FINDING') known"
  [ $rc -ne 0 ] && echo "$out" | grep -E "VIOLATION|violation key|HARNESS" | head -5
done
