#!/bin/bash
# usage: ingest_seed.sh <ID> [suffix]  — verify an adversary seed (demo passes on /repo, fails with the patch),
# copy it to /verif/seeded/<ID><suffix>/ and run our check against it.
ID=$1; SUF=${2:-}
SRC=/tmp/wt/$ID/_seed
DST=/verif/seeded/$ID$SUF
[ -f $SRC/patch.diff ] || { echo "no seed at $SRC"; exit 2; }
S=$(mktemp -d /tmp/sv-XXXX)
cp -r /repo/redun $S/redun
mkdir -p $S/_seed && cp $SRC/demo.py $S/_seed/
( cd $S && PYTHONPATH=$S timeout 600 /venv/bin/python _seed/demo.py >/dev/null 2>&1 ); base=$?
( cd $S && patch -p1 -s -f -i $SRC/patch.diff ) || { echo "$ID: patch does not apply to current /repo"; rm -rf $S; exit 3; }
( cd $S && PYTHONPATH=$S timeout 600 /venv/bin/python _seed/demo.py >/dev/null 2>&1 ); mut=$?
rm -rf $S
echo "$ID demo: unmodified exit=$base, patched exit=$mut"
if [ $base -ne 0 ] || [ $mut -eq 0 ]; then echo "$ID: seed NOT confirmed"; exit 4; fi
mkdir -p $DST && cp $SRC/patch.diff $SRC/demo.py $SRC/meta.json $DST/
cd /verif && PYTHONPATH=/verif:/verif/.deps /venv/bin/python -m vf.selftest $ID "seeded:$ID$SUF"
