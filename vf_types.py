"""Importable value types used by generated cases (top-level module so pickles resolve in any process)."""
from __future__ import annotations

import dataclasses
from collections import namedtuple
from typing import Any, NamedTuple

Point = namedtuple("Point", ["x", "y"])


class Triple(NamedTuple):
    a: Any
    b: Any
    c: Any = None


@dataclasses.dataclass
class Rec:
    a: Any
    b: Any = None


@dataclasses.dataclass
class RecNI:
    a: Any
    c: Any = dataclasses.field(init=False, default=None)


@dataclasses.dataclass(frozen=True)
class FrozenRec:
    a: Any
    b: Any = None


@dataclasses.dataclass(frozen=True)
class FrozenNI:
    a: Any
    c: Any = dataclasses.field(init=False, default=None)


class MyList(list):
    """A list subclass: redun treats container subclasses as leaves."""


class MyDict(dict):
    pass


class VErr(Exception):
    """Custom picklable exception used by generated programs."""

    def __init__(self, msg=""):
        super().__init__(msg)
        self.msg = msg

    def __reduce__(self):
        return (VErr, (self.msg,))


class LockErr(Exception):
    """An error whose payload cannot be pickled (pickling a lock raises TypeError): redun records
    such errors as a generic Exception(repr(error)) but must still raise the original one."""

    def __init__(self, msg=""):
        import threading

        super().__init__(msg, threading.Lock())

    def __str__(self):
        return str(self.args[0])


NT = {"Point": Point, "Triple": Triple}
DC = {"Rec": Rec, "RecNI": RecNI, "FrozenRec": FrozenRec, "FrozenNI": FrozenNI}
SUB = {"MyList": MyList, "MyDict": MyDict}


# ---------------------------------------------------------------- build
def build(spec):
    k = spec[0]
    if k == "int":
        return int(spec[1])
    if k == "float":
        return float(spec[1])
    if k == "str":
        return spec[1]
    if k == "bytes":
        return bytes.fromhex(spec[1])
    if k == "none":
        return None
    if k == "bool":
        return bool(spec[1])
    if k == "list":
        return [build(s) for s in spec[1]]
    if k == "tuple":
        return tuple(build(s) for s in spec[1])
    if k == "dict":
        return {build(a): build(b) for a, b in spec[1]}
    if k == "set":
        return {build(s) for s in spec[1]}
    if k == "frozenset":
        return frozenset(build(s) for s in spec[1])
    if k == "nt":
        return NT[spec[1]](*[build(s) for s in spec[2]])
    if k == "dc":
        cls = DC[spec[1]]
        init = {f.name: build(spec[2][f.name]) for f in dataclasses.fields(cls) if f.init and f.name in spec[2]}
        obj = cls(**init)
        for f in dataclasses.fields(cls):
            if not f.init and f.name in spec[2]:
                object.__setattr__(obj, f.name, build(spec[2][f.name]))
        return obj
    if k == "sub":
        return SUB[spec[1]](build(s) for s in spec[2])
    raise ValueError(spec)


