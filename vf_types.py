"""Importable value types used by generated cases (top-level module so pickles resolve in any process)."""
from __future__ import annotations

import dataclasses
from collections import namedtuple
from typing import Any, NamedTuple

Point = namedtuple("Point", ["x", "y"])


class Triple(NamedTuple):
    a: Any
    b: Any
    c: Any = None


@dataclasses.dataclass
class Rec:
    a: Any
    b: Any = None


@dataclasses.dataclass
class RecNI:
    a: Any
    c: Any = dataclasses.field(init=False, default=None)


@dataclasses.dataclass(frozen=True)
class FrozenRec:
    a: Any
    b: Any = None


@dataclasses.dataclass(frozen=True)
class FrozenNI:
    a: Any
    c: Any = dataclasses.field(init=False, default=None)


class MyList(list):
    """A list subclass: redun treats container subclasses as leaves."""


class MyDict(dict):
    pass


class VErr(Exception):
    """Custom picklable exception used by generated programs."""

    def __init__(self, msg=""):
        super().__init__(msg)
        self.msg = msg

    def __reduce__(self):
        return (VErr, (self.msg,))


NT = {"Point": Point, "Triple": Triple}
DC = {"Rec": Rec, "RecNI": RecNI, "FrozenRec": FrozenRec, "FrozenNI": FrozenNI}
SUB = {"MyList": MyList, "MyDict": MyDict}
