"""Importable tasks for the remote-job protocol check (C32). Top-level module so that
`redun oneshot vf_remote_tasks ...` can import it by name in any process."""
from __future__ import annotations

from redun import task

import vf_types as T


class RemoteCustomError(Exception):
    """Picklable custom error with a single message argument."""


def _raise(kind: str, msg):
    if kind == "value":
        raise ValueError(msg)
    if kind == "key":
        raise KeyError(msg)
    if kind == "verr":
        raise T.VErr(msg)
    if kind == "custom":
        raise RemoteCustomError(msg)
    if kind == "zero":
        return 1 // 0
    if kind == "assert":
        assert False, msg
    raise RuntimeError(f"unknown kind {kind!r}: {msg!r}")


@task(namespace="vfr", version="1")
def echo(*args, **kwargs):
    """Returns its arguments."""
    return {"args": args, "kwargs": kwargs}


@task(namespace="vfr", version="1")
def mix(a, b=2, *rest, k=None, **kw):
    """Mixed signature; a call that does not bind raises TypeError locally and remotely alike."""
    return [a, b, rest, k, kw]


@task(namespace="vfr", version="1")
def boom(kind, msg=""):
    """Always raises."""
    return _raise(kind, msg)


@task(namespace="vfr", version="1")
def maybe(kind, value, msg=""):
    """Returns value when kind == 'ok', raises otherwise (array elements mix both)."""
    if kind == "ok":
        return value
    return _raise(kind, msg)


@task(namespace="vfr", version="1")
def mkfiles(dirname, shape, contents):
    """Writes contents[i] to <dirname>/f<i>.txt and returns the Files in a container of the given shape."""
    import os

    from redun import File

    os.makedirs(dirname, exist_ok=True)
    files = []
    for i, c in enumerate(contents):
        f = File(os.path.join(dirname, f"f{i}.txt"))
        f.write(c)
        files.append(f)
    if shape == "bare":
        return files[0]
    if shape == "list":
        return files
    if shape == "dict":
        return {"parts": files, "n": len(files)}
    if shape == "nested":
        return (len(files), [files[:1], {"rest": tuple(files[1:])}])
    return [f.path for f in files]
