"""L8 — in-process fakes for the Docker / AWS Batch / K8S / GCP Batch / AWS Glue back ends.

Each adapter replaces the module-level functions through which an executor talks to its cloud /
container API (the same seams the repository's own tests patch, or one call level above them so
that no S3 / filesystem scratch traffic is needed) by functions reading a `JobTable`: an in-process
table of submitted cloud jobs whose status the harness decides ("SUCCEEDED after n polls").
The executor classes themselves — `_submit`/`submit`, `_start`, `_monitor`, `stop`,
`_process_*` — are the repository's real code. `FakeScheduler` records every `done_job` /
`reject_job` the executor reports.

No adapter touches the network, Docker, or a cloud SDK client.
"""
from __future__ import annotations

import ast
import collections
import contextlib
import inspect
import logging
import textwrap
import types
from typing import Any, Callable, Optional

NS = types.SimpleNamespace


class FakeJobError(Exception):
    pass


class FakeScheduler:
    """The surface of redun.scheduler.Scheduler that executors touch from their threads."""

    def __init__(self, configdir: str = "/tmp"):
        self.reports: list[tuple] = []          # (kind, job key or None, detail)
        self.logger = NS(level=logging.INFO)
        self.config = NS(configdir=configdir)
        self.on_report: Optional[Callable[[str, Any], None]] = None

    def log(self, *a, **k) -> None:
        pass

    def add_job_tags(self, job, tags) -> None:
        pass

    def _rec(self, kind: str, job, detail) -> None:
        key = getattr(job, "vf_key", None) if job is not None else None
        self.reports.append((kind, key, detail))
        if self.on_report is not None:
            self.on_report(kind, key)

    def done_job(self, job, result, job_tags=None) -> None:
        self._rec("done", job, result)

    def reject_job(self, job, error, error_traceback=None, job_tags=None) -> None:
        self._rec("reject", job, error)


class JobTable:
    """Cloud-side job table. plan: {job key: {"polls": n, "status": "SUCCEEDED"|"FAILED"}} — a
    job shows its final status from its (n+1)-th status poll on (n = 0: at the first poll)."""

    def __init__(self, plan: Optional[dict] = None):
        self.plan = plan or {}
        self.jobs: "collections.OrderedDict[str, dict]" = collections.OrderedDict()

    def submit(self, job) -> str:
        key = job.vf_key
        p = self.plan.get(str(key), {})
        cid = f"fj{len(self.jobs)}"
        self.jobs[cid] = {"key": key, "left": int(p.get("polls", 0)),
                          "final": p.get("status", "SUCCEEDED"), "job": job}
        return cid

    def poll(self, cid: str) -> str:
        j = self.jobs[cid]
        if j["left"] > 0:
            j["left"] -= 1
            return "RUNNING"
        return j["final"]

    def result(self, job) -> Any:
        return ("result", job.vf_key)


def make_jobs(n: int) -> list:
    """Real redun Jobs of a registered task, with deterministic ids."""
    from redun import Task
    from redun.scheduler import Job
    from redun.task import get_task_registry

    reg = get_task_registry()
    t = reg.get("vf_c10.work")
    if t is None:
        def work(x):
            return x

        t = Task(work, name="work", namespace="vf_c10", source="def work(x):\n    return x\n")
        reg.add(t)
    jobs = []
    for i in range(n):
        job = Job(t, t(i), id=f"job-{i + 1}")
        job.eval_hash = f"{i + 1:040x}"
        job.args = ((i,), {})
        job.vf_key = i + 1
        jobs.append(job)
    return jobs


def while_span(func, nth: int = 0) -> tuple[int, int]:
    """(first line, last line) in the file of the nth outermost `while` statement of func."""
    src, first = inspect.getsourcelines(func)
    tree = ast.parse(textwrap.dedent("".join(src)))
    loops = [n for n in ast.walk(tree) if isinstance(n, ast.While)]
    loops.sort(key=lambda n: n.lineno)
    outer = [n for n in loops if not any(o is not n and o.lineno < n.lineno <= o.end_lineno for o in loops)]
    n = outer[nth]
    return first + n.lineno - 1, first + n.end_lineno - 1


def if_lines(func) -> set:
    """File line numbers of the `if` statements of func."""
    src, first = inspect.getsourcelines(func)
    tree = ast.parse(textwrap.dedent("".join(src)))
    return {first + n.lineno - 1 for n in ast.walk(tree) if isinstance(n, ast.If)}


class Adapter:
    """Base: patching helpers + the questions the C10 oracle asks."""

    name = "?"
    # functions whose code objects carry the name of a polling thread's target and its exit loop
    poller_targets: tuple = ("_monitor",)

    def __init__(self):
        self._saved: list = []
        self.table: JobTable = JobTable()
        self.sched: FakeScheduler = FakeScheduler()

    # -- patch plumbing
    def _set(self, obj, attr: str, value) -> None:
        self._saved.append((obj, attr, obj.__dict__.get(attr, _MISSING)))
        setattr(obj, attr, value)

    def setup(self) -> None:
        raise NotImplementedError

    def teardown(self) -> None:
        for obj, attr, old in reversed(self._saved):
            if old is _MISSING:
                delattr(obj, attr)
            else:
                setattr(obj, attr, old)
        self._saved.clear()

    # -- per case
    def new_case(self, plan: dict, scratch: str):
        self.table = JobTable(plan)
        self.sched = FakeScheduler(scratch)
        self.ex = self.build(scratch)
        return self.ex

    def build(self, scratch: str):
        raise NotImplementedError

    def modules(self) -> list:
        raise NotImplementedError

    def cls(self):
        raise NotImplementedError

    def watch_funcs(self) -> list:
        raise NotImplementedError

    def submit(self, job) -> None:
        self.ex.submit(job)

    def pending_keys(self) -> list:
        """Job keys still held in the executor's pending structures."""
        raise NotImplementedError

    def exit_loops(self) -> dict:
        """{thread target name: (while first line, while last line)} of the polling loops."""
        c = self.cls()
        return {n: while_span(getattr(c, n)) for n in self.poller_targets}


_MISSING = object()


def _err_tb():
    return FakeJobError("job failed"), NS(logs=[])


# ------------------------------------------------------------------------------------------ Docker
class DockerAdapter(Adapter):
    name = "DockerExecutor"
    interval = 0.2

    def cls(self):
        from redun.executors.docker import DockerExecutor

        return DockerExecutor

    def modules(self):
        import redun.executors.docker as m

        return [m]

    def setup(self):
        import redun.executors.docker as m

        A = self

        def submit_task(image, scratch_prefix, job, a_task, args=(), kwargs={}, job_options={},
                        code_file=None):
            return {"jobId": A.table.submit(job), "redun_job_id": job.id}

        def iter_job_status(scratch_prefix, job_id2job):
            # lazy, like the real one: iterates the dict it was given
            for job_id, redun_job in job_id2job.items():
                st = A.table.poll(job_id)
                if st != "RUNNING":
                    yield {"jobId": job_id, "status": st, "logs": ""}

        self._set(m, "submit_task", submit_task)
        self._set(m, "iter_job_status", iter_job_status)
        self._set(m, "parse_job_result", lambda prefix, job: (A.table.result(job), True))
        self._set(m, "parse_job_error", lambda prefix, job: _err_tb())

    def build(self, scratch):
        from redun.config import Config

        config = Config({"docker": {"image": "img", "scratch": scratch, "code_package": False,
                                    "job_monitor_interval": 0.2}})
        return self.cls()("docker", self.sched, config=config["docker"])

    def watch_funcs(self):
        c = self.cls()
        return [c._start, c.stop, c._monitor, c._process_job_status, c._submit, c.submit]

    def pending_keys(self):
        return [j.vf_key for j in self.ex._pending_jobs.values()]


# ------------------------------------------------------------------------------------------ AWS Batch
class AWSBatchAdapter(Adapter):
    name = "AWSBatchExecutor"
    interval = 5.0
    min_array_size = 0

    def cls(self):
        from redun.executors.aws_batch import AWSBatchExecutor

        return AWSBatchExecutor

    def modules(self):
        import redun.executors.aws_batch as m
        import redun.executors.docker as d
        import redun.job_array as ja

        return [m, d, ja]

    def setup(self):
        import redun.executors.aws_batch as m
        from redun.executors import aws_utils

        A = self

        def submit_task(image, queue, s3_scratch_prefix, job, a_task, args=(), kwargs={},
                        job_options={}, code_file=None, aws_region=None, array_uuid=None,
                        array_size=0):
            return {"jobId": A.table.submit(job), "jobName": f"redun-job-{job.eval_hash}"}

        def iter_batch_job_status(job_ids, pending_truncate=10, aws_region=None):
            for job_id in job_ids:
                yield {"jobId": job_id, "status": A.table.poll(job_id)}

        self._set(m, "submit_task", submit_task)
        self._set(m, "iter_batch_job_status", iter_batch_job_status)
        self._set(m, "parse_job_result", lambda prefix, job: (A.table.result(job), True))
        self._set(m, "parse_job_error", lambda prefix, job, batch_job_metadata=None: _err_tb())
        self._set(m, "parse_job_logs", lambda *a, **k: [])
        self._set(aws_utils, "get_aws_user", lambda *a, **k: "alice")
        self._set(aws_utils, "get_default_region", lambda: "us-west-2")

    def build(self, scratch):
        from redun.config import Config

        config = Config({"batch": {"image": "img", "queue": "q", "s3_scratch": scratch,
                                   "aws_region": "us-west-2", "code_package": False,
                                   "job_monitor_interval": 5.0, "job_stale_time": 3.0,
                                   "min_array_size": self.min_array_size, "max_array_size": 1000}})
        ex = self.cls()("batch", self.sched, config["batch"])
        ex.get_jobs = lambda statuses=None: []
        ex.get_array_child_jobs = lambda *a, **k: []
        return ex

    def watch_funcs(self):
        from redun.executors.docker import DockerExecutor
        from redun.job_array import JobArrayer

        c = self.cls()
        return [c._start, c.stop, c._monitor, c._process_job_status, c._submit, c.submit,
                c._submit_jobs, c._submit_single_job, JobArrayer.add_job, JobArrayer.stop,
                DockerExecutor.stop]

    def pending_keys(self):
        keys = [j.vf_key for j in self.ex.pending_batch_jobs.values()]
        keys += [j.vf_key for js in self.ex.arrayer.pending.values() for j in js]
        return keys


# ------------------------------------------------------------------------------------------ K8S
class K8SAdapter(Adapter):
    name = "K8SExecutor"
    interval = 5.0

    def cls(self):
        from redun.executors.k8s import K8SExecutor

        return K8SExecutor

    def modules(self):
        import redun.executors.k8s as m
        import redun.job_array as ja

        return [m, ja]

    def setup(self):
        import redun.executors.k8s as m
        from redun.executors import k8s_utils

        A = self

        def submit_task(k8s_client, image, namespace, scratch_prefix, job, a_task, args=(),
                        kwargs={}, job_options={}, code_file=None, array_uuid=None, array_size=0,
                        secret_name=None):
            cid = A.table.submit(job)
            return NS(metadata=NS(uid=f"uid-{cid}", name=cid))

        def k8s_describe_jobs(k8s_client, job_names, namespace):
            out = []
            for name in job_names:
                st = A.table.poll(name)
                out.append(NS(
                    metadata=NS(name=name, uid=f"uid-{name}"),
                    spec=NS(parallelism=None),
                    status=NS(succeeded=1 if st == "SUCCEEDED" else None,
                              failed=1 if st == "FAILED" else None, conditions=None,
                              completed_indexes=None)))
            return out

        self._set(m, "submit_task", submit_task)
        self._set(m, "k8s_describe_jobs", k8s_describe_jobs)
        self._set(m, "get_k8s_job_pods", lambda core, name: [])
        self._set(m, "parse_job_result", lambda prefix, job: (A.table.result(job), True))
        self._set(m, "parse_job_error", lambda prefix, job: _err_tb())
        self._set(k8s_utils, "delete_job", lambda *a, **k: None)
        self._set(k8s_utils, "create_namespace", lambda *a, **k: None)
        self._set(k8s_utils.K8SClient, "version", lambda self: (1, 23))
        self._set(k8s_utils.K8SClient, "core", property(lambda self: None))
        self._set(k8s_utils.K8SClient, "batch", property(lambda self: None))

    def build(self, scratch):
        from redun.config import Config

        config = Config({"k8s": {"type": "k8s", "image": "img", "scratch": scratch,
                                 "code_package": False, "job_monitor_interval": 5.0,
                                 "job_stale_time": 3.0, "min_array_size": 0}})
        ex = self.cls()("k8s", self.sched, config["k8s"])
        ex.get_jobs = lambda: []
        return ex

    def watch_funcs(self):
        from redun.job_array import JobArrayer

        c = self.cls()
        return [c._start, c.stop, c._monitor, c._process_k8s_job_status, c._process_redun_job,
                c._submit, c.submit, c._submit_jobs, c._submit_single_job, JobArrayer.add_job,
                JobArrayer.stop]

    def pending_keys(self):
        keys = []
        for v in self.ex.pending_k8s_jobs.values():
            keys += [j.vf_key for j in v.values()] if isinstance(v, dict) else [v.vf_key]
        keys += [j.vf_key for js in self.ex.arrayer.pending.values() for j in js]
        return keys


# ------------------------------------------------------------------------------------------ GCP Batch
class GCPBatchAdapter(Adapter):
    name = "GCPBatchExecutor"
    interval = 5.0

    def cls(self):
        from redun.executors.gcp_batch import GCPBatchExecutor

        return GCPBatchExecutor

    def modules(self):
        import redun.executors.docker as d
        import redun.executors.gcp_batch as m
        import redun.job_array as ja

        return [m, d, ja]

    def setup(self):
        import redun.executors.gcp_batch as m
        from google.cloud.batch_v1 import TaskStatus
        from redun.executors import gcp_utils

        A = self
        states = {"RUNNING": TaskStatus.State.RUNNING, "SUCCEEDED": TaskStatus.State.SUCCEEDED,
                  "FAILED": TaskStatus.State.FAILED}
        machine = NS(memory_mb=16384, guest_cpus=4)

        def batch_submit(client=None, job_name=None, project=None, region=None, image=None,
                         commands=None, **kw):
            job = next(j for jid, j in A._by_id.items() if job_name.endswith(jid))
            cid = A.table.submit(job)
            return NS(uid=f"uid-{cid}", task_groups=[NS(name=f"groups/{cid}", task_count=1)])

        def get_task(client=None, task_name=None):
            cid = task_name.split("/")[1]
            return NS(name=task_name, status=NS(state=states[A.table.poll(cid)]))

        self._set(gcp_utils, "get_gcp_batch_client", lambda *a, **k: object())
        self._set(gcp_utils, "get_gcp_compute_client", lambda *a, **k: object())
        self._set(gcp_utils, "get_compute_machine_type", lambda *a, **k: machine)
        self._set(gcp_utils, "list_jobs", lambda *a, **k: [])
        self._set(gcp_utils, "get_task", get_task)
        self._set(gcp_utils, "batch_submit", batch_submit)
        self._set(m, "parse_job_result", lambda prefix, job: (A.table.result(job), True))
        self._set(m, "parse_job_error", lambda prefix, job: _err_tb())
        self._by_id: dict = {}

    def build(self, scratch):
        from redun.config import Config

        config = Config({"gcp": {"gcs_scratch": scratch, "project": "p", "region": "r",
                                 "image": "img", "code_package": False,
                                 "job_monitor_interval": 5.0, "job_stale_time": 3.0,
                                 "min_array_size": 0}})
        return self.cls()("gcp", self.sched, config["gcp"])

    def submit(self, job):
        # batch_submit is not given the redun job, only a cloud job name ending in its id
        self._by_id[job.id] = job
        self.ex.submit(job)

    def watch_funcs(self):
        from redun.executors.docker import DockerExecutor
        from redun.job_array import JobArrayer

        c = self.cls()
        return [c._start, c.stop, c._monitor, c._process_task_status, c._submit, c.submit,
                c._submit_jobs, c._submit_single_job, JobArrayer.add_job, JobArrayer.stop,
                DockerExecutor.stop]

    def pending_keys(self):
        keys = [j.vf_key for j in self.ex.pending_batch_tasks.values()]
        keys += [j.vf_key for js in self.ex.arrayer.pending.values() for j in js]
        return keys


# ------------------------------------------------------------------------------------------ AWS Glue
class AWSGlueAdapter(Adapter):
    name = "AWSGlueExecutor"
    interval = 10.0
    poller_targets = ("_monitor", "_submission_thread")

    def cls(self):
        from redun.executors.aws_glue import AWSGlueExecutor

        return AWSGlueExecutor

    def modules(self):
        import redun.executors.aws_glue as m

        return [m]

    def setup(self):
        import redun.executors.aws_glue as m
        from redun.executors import aws_utils

        A = self

        def submit_glue_job(job, a_task, s3_scratch_prefix=None, glue_job_name=None,
                            redun_zip_location=None, code_file=None, job_options={},
                            aws_region=None):
            return {"JobRunId": A.table.submit(job)}

        def glue_describe_jobs(job_ids, glue_job_name=None, aws_region=None):
            for jid in job_ids:
                yield {"Id": jid, "JobRunState": A.table.poll(jid), "LogGroupName": "lg"}

        self._set(m, "submit_glue_job", submit_glue_job)
        self._set(m, "glue_describe_jobs", glue_describe_jobs)
        self._set(m, "parse_job_result", lambda prefix, job: (A.table.result(job), True))
        self._set(m, "parse_job_error", lambda prefix, job, meta=None: _err_tb())
        self._set(m, "get_job_insight_traceback", lambda **k: [])
        self._set(aws_utils, "get_default_region", lambda: "us-west-2")
        self._set(aws_utils, "get_aws_client", lambda *a, **k: NS(exceptions=NS(
            ConcurrentRunsExceededException=_Never, ResourceNumberLimitExceededException=_Never)))

    def build(self, scratch):
        from redun.config import Config

        config = Config({"glue": {"s3_scratch": scratch, "aws_region": "us-west-2",
                                  "role": "arn:aws:iam::123:role/service-role/AWSGlueServiceRole",
                                  "job_monitor_interval": 10.0, "job_retry_interval": 60.0,
                                  "code_package": False}})
        ex = self.cls()("glue", self.sched, config["glue"])
        ex.get_jobs = lambda statuses=None: iter(())
        ex.glue_job_name = "vf-glue-job"
        ex.redun_zip_location = "zip"
        ex.code_file = NS(path="code")
        return ex

    def watch_funcs(self):
        c = self.cls()
        return [c._start, c.stop, c._monitor, c._submission_thread, c._process_job_status,
                c.submit, c.submit_pending_job]

    @property
    def handoff(self) -> tuple:
        """(line of the popleft, line of the insert into running_glue_jobs) in _submission_thread:
        parked strictly after the first and up to the second, the thread holds a job that is in
        neither collection."""
        import inspect

        src, first = inspect.getsourcelines(self.cls()._submission_thread)
        pop = next(i for i, l in enumerate(src) if "popleft()" in l) + first
        ins = next(i for i, l in enumerate(src) if "self.running_glue_jobs[job_id] = job" in l) + first
        app = next(i for i, l in enumerate(src) if "self.pending_glue_jobs.append(job)" in l) + first
        return pop, max(ins, app)

    def pending_keys(self):
        return ([j.vf_key for j in self.ex.pending_glue_jobs]
                + [j.vf_key for j in self.ex.running_glue_jobs.values()])


class _Never(Exception):
    pass


ADAPTERS = collections.OrderedDict(
    (a.name, a) for a in (DockerAdapter, AWSBatchAdapter, K8SAdapter, GCPBatchAdapter, AWSGlueAdapter))


@contextlib.contextmanager
def adapter(name: str):
    a = ADAPTERS[name]()
    a.setup()
    try:
        yield a
    finally:
        a.teardown()
