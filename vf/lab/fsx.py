"""L7 — filesystem histories: operations on a scratch tree with explicit, generated (content, mtime).

Every mutation takes the bytes to write and an integer mtime *slot*; the mtime is set with
`os.utime(ns=...)` from that integer (never by sleeping), so "rewritten with a distinct size or
mtime" holds by construction:

* `Tree.stamp(step, m)` maps (step index of the history, generated small int) to a whole second in
  2001 — distinct for distinct steps, and distinct from anything the wall clock produces today.
* `same_stat_rewrite` changes bytes while keeping size and mtime_ns exactly (the blind spot of a
  (size, mtime) pseudo-hash, and the case a content hash must see).

Snapshots (`Tree.snapshot`) are the harness's own view of the tree — os.walk + os.stat + read — and
are what the reference models in c30/c04 are computed from.
"""
from __future__ import annotations

import os
import shutil
from typing import Optional

from hypothesis import strategies as st

BASE = 1_000_000_000          # 2001-09-09: far from "now", so generated mtimes never equal clock mtimes
SLOTS = 16

# JSON-able generated content: short ASCII strings (sizes 0..6 collide often, on purpose)
contents = st.text(st.sampled_from("ab01"), max_size=6)
mslots = st.integers(0, SLOTS - 1)


def enc(content) -> bytes:
    return content if isinstance(content, bytes) else content.encode("latin-1")


class Tree:
    def __init__(self, root: str):
        self.root = root
        os.makedirs(root, exist_ok=True)

    # ------------------------------------------------------------ paths / time
    def p(self, rel: str) -> str:
        return os.path.join(self.root, rel) if rel else self.root

    @staticmethod
    def stamp(step: int, m: int) -> int:
        """Whole-second mtime for history step `step` and generated slot `m`: injective in step."""
        return BASE + step * SLOTS + (m % SLOTS)

    @staticmethod
    def set_mtime(path: str, secs: int) -> None:
        ns = int(secs) * 10**9
        os.utime(path, ns=(ns, ns))

    # ------------------------------------------------------------ mutations
    def write(self, rel: str, content, mtime: int) -> None:
        path = self.p(rel)
        os.makedirs(os.path.dirname(path), exist_ok=True)
        with open(path, "wb") as f:
            f.write(enc(content))
        self.set_mtime(path, mtime)

    add_member = write

    def append(self, rel: str, content, mtime: int) -> None:
        path = self.p(rel)
        os.makedirs(os.path.dirname(path), exist_ok=True)
        with open(path, "ab") as f:
            f.write(enc(content))
        self.set_mtime(path, mtime)

    def truncate(self, rel: str, size: int, mtime: int) -> bool:
        path = self.p(rel)
        if not os.path.isfile(path):
            return False
        with open(path, "rb+") as f:
            f.truncate(size)
        self.set_mtime(path, mtime)
        return True

    def remove(self, rel: str) -> bool:
        path = self.p(rel)
        if os.path.isfile(path):
            os.remove(path)
            return True
        return False

    remove_member = remove

    def touch(self, rel: str, mtime: int) -> None:
        """utime only (creates an empty file when missing)."""
        path = self.p(rel)
        if not os.path.exists(path):
            os.makedirs(os.path.dirname(path), exist_ok=True)
            open(path, "wb").close()
        self.set_mtime(path, mtime)

    def recreate_same(self, rel: str, mtime: int) -> bool:
        """Delete and recreate with identical bytes and the given (new) mtime."""
        path = self.p(rel)
        if not os.path.isfile(path):
            return False
        with open(path, "rb") as f:
            data = f.read()
        os.remove(path)
        self.write(rel, data, mtime)
        return True

    def same_stat_rewrite(self, rel: str) -> bool:
        """Change the bytes, keep size and mtime_ns exactly. False if impossible (missing/empty)."""
        path = self.p(rel)
        if not os.path.isfile(path):
            return False
        st_ = os.stat(path)
        if st_.st_size == 0:
            return False
        with open(path, "rb") as f:
            data = bytearray(f.read())
        data[0] = (data[0] + 1) % 256
        with open(path, "wb") as f:
            f.write(bytes(data))
        os.utime(path, ns=(st_.st_atime_ns, st_.st_mtime_ns))
        return True

    def mkdir(self, rel: str) -> None:
        os.makedirs(self.p(rel), exist_ok=True)

    def rmtree(self, rel: str) -> bool:
        path = self.p(rel)
        if os.path.isdir(path):
            shutil.rmtree(path)
            return True
        return False

    # ------------------------------------------------------------ observation
    def stat(self, rel: str) -> Optional[tuple]:
        path = self.p(rel)
        if not os.path.isfile(path):
            return None
        s = os.stat(path)
        return (s.st_size, s.st_mtime)

    def read(self, rel: str) -> Optional[bytes]:
        path = self.p(rel)
        if not os.path.isfile(path):
            return None
        with open(path, "rb") as f:
            return f.read()

    def snapshot(self, rel: str = "") -> dict:
        """{relpath (relative to the tree root): (size, st_mtime float, bytes)} for every regular
        file at or under `rel`."""
        out = {}
        top = self.p(rel)
        if os.path.isfile(top):
            s = os.stat(top)
            with open(top, "rb") as f:
                out[rel] = (s.st_size, s.st_mtime, f.read())
            return out
        for dirpath, _dirs, files in os.walk(top):
            for name in files:
                full = os.path.join(dirpath, name)
                if not os.path.isfile(full):
                    continue
                s = os.stat(full)
                with open(full, "rb") as f:
                    data = f.read()
                out[os.path.relpath(full, self.root)] = (s.st_size, s.st_mtime, data)
        return out

    def destroy(self) -> None:
        shutil.rmtree(self.root, ignore_errors=True)


# ---------------------------------------------------------------- reference projections
def stat_view(snap: dict) -> tuple:
    """What a (path, size, mtime) pseudo-hash may depend on."""
    return tuple(sorted((rel, v[0], v[1]) for rel, v in snap.items()))


def bytes_view(snap: dict) -> tuple:
    """What a content hash may depend on."""
    return tuple(sorted((rel, v[2]) for rel, v in snap.items()))


def hidden(rel: str) -> bool:
    return any(part.startswith(".") for part in rel.split(os.sep))
