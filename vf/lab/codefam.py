"""L6 — editable code: a family of tasks built programmatically from JSON *variants*.

Task i is registered as vf_fam.t<i>. Its behaviour is a closure over its variant and its
source text is the canonical JSON of the variant, so an "edit" (another variant) changes the task
hash, a "revert" (an earlier variant again) restores it, and a version bump changes the version
string. For versioned tasks the behaviour is a function of the version (the contract a user signs
by versioning, docs/source/tasks.md); generators never change a versioned body without bumping.

Variants (all tasks take one argument x; `parse` tasks take a File):
  {"k": "arith", "mul": a, "add": b}            x*a + b
  {"k": "call", "callee": j, "shift": s, "add": b}     t_j(x + s) + b            (lazy)
  {"k": "call2", "callees": [j1, j2]}            t_j1(x) + t_j2(x + 1)          (lazy)
  {"k": "call2s", "callees": [j1, j2]}           t_j1(x) + t_j2(x)              (lazy; same argument)
  {"k": "sub", "callee": j}                      t_j(x)[0]  (lazy; TypeError raised by the scheduler, not by a task)
  {"k": "raise_if", "mod": m, "add": b}          ValueError if x % m == 0 else x + b
  {"k": "catch", "callee": j, "add": b}          catch(t_j(x), ValueError, recover) + b, recover -> -1
  {"k": "readfile", "callee": j, "file": p}      t_j(File(paths[p])) + x   (t_j must be a parse task)
  {"k": "parse", "add": b}                        int(file.read()) + b
  {"k": "callcond", "consumer": j, "test": k, "then": l}   t_j(cond(t_k(x) >= 0, t_l(x), x))
plus optional "ver": "<string>" and "opts": {definition-time task options, e.g. check_valid}.
"""
from __future__ import annotations

import collections
import json

NS = "vf_fam"


def canon(variant) -> str:
    return json.dumps(variant, sort_keys=True)


class Family:
    def __init__(self, n: int, paths=()):
        self.n = n
        self.paths = list(paths)
        self.variants: list = [None] * n
        self.tasks: list = [None] * n
        self.calls: collections.Counter = collections.Counter()
        self.call_log: list = []
        self._recover = None

    # ---------------------------------------------------------------- registry
    def _registry(self):
        from redun.task import get_task_registry

        return get_task_registry()

    def recover_task(self):
        if self._recover is None:
            from redun import Task

            def recover(err):
                return -1

            self._recover = Task(recover, name="recover", namespace=NS, source="def recover(err): return -1")
            self._registry().add(self._recover)
        return self._recover

    def install(self, i: int, variant: dict) -> None:
        from redun import Task

        fam = self
        v = dict(variant)

        def func(x):
            fam.calls[i] += 1
            fam.call_log.append((i, repr(x)[:40]))
            return fam.behave(i, v, x)

        func.__name__ = f"t{i}"
        src = f"# variant of t{i}\n" + canon({k: val for k, val in v.items() if k not in ("opts",)})
        t = Task(func, name=f"t{i}", namespace=NS, version=v.get("ver"), source=src,
                 task_options_base=dict(v.get("opts") or {}))
        self._registry().add(t)
        self.tasks[i] = t
        self.variants[i] = v

    def install_all(self, variants) -> None:
        self.recover_task()
        for i, v in enumerate(variants):
            self.install(i, v)

    # ---------------------------------------------------------------- behaviour
    def behave(self, i, v, x):
        from redun import File
        from redun.scheduler import catch

        k = v["k"]
        if k == "arith":
            return x * v["mul"] + v["add"]
        if k == "call":
            return self.tasks[v["callee"]](x + v["shift"]) + v["add"]
        if k == "call2":
            j1, j2 = v["callees"]
            return self.tasks[j1](x) + self.tasks[j2](x + 1)
        if k == "call2s":
            # both callees get the SAME argument: when they call a common task with it, the second
            # call is a duplicate within the execution (answered by CSE)
            j1, j2 = v["callees"]
            return self.tasks[j1](x) + self.tasks[j2](x)
        if k == "sub":
            # subscripting the (int) result of the callee fails lazily, on the scheduler's side: no
            # task function raises, yet the workflow is rejected
            return self.tasks[v["callee"]](x)[0]
        if k == "raise_if":
            if x % v["mod"] == 0:
                raise ValueError(f"bad {x}")
            return x + v["add"]
        if k == "catch":
            return catch(self.tasks[v["callee"]](x), ValueError, self.recover_task()) + v["add"]
        if k == "callcond":
            from redun.scheduler import cond

            c = cond(self.tasks[v["test"]](x) >= 0, self.tasks[v["then"]](x), x)
            if v.get("kw"):
                return self.tasks[v["consumer"]](x=c)
            return self.tasks[v["consumer"]](c)
        if k == "readfile":
            if v.get("kw"):
                return self.tasks[v["callee"]](x=File(self.paths[v["file"]])) + x
            return self.tasks[v["callee"]](File(self.paths[v["file"]])) + x
        if k == "parse":
            return int(x.read().strip() or 0) + v["add"]
        raise ValueError(k)

    def root_expr(self, arg: int):
        return self.tasks[0](arg)

    def uses(self, i=0, seen=None) -> set:
        """Indices of tasks reachable from task i through the current variants."""
        seen = set() if seen is None else seen
        if i in seen:
            return seen
        seen.add(i)
        v = self.variants[i]
        for j in ([v["callee"]] if "callee" in v else []) + list(v.get("callees", [])) + [v[f] for f in ("consumer", "test", "then") if f in v]:
            self.uses(j, seen)
        return seen
