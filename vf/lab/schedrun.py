"""Run one generated program under the controlled scheduler and collect what the scheduler-level
properties need: outcome, submissions, limits bookkeeping, deadlock detection."""
from __future__ import annotations

from typing import Optional

from vf.lab import ctl as C
from vf.lab import dbx


def _fresh(prog):
    from vf.lab.progs import fresh

    return fresh(prog)


def demand(sub) -> dict:
    """Units a submission needs per resource, from its `limits` option as documented
    (docs/source/config.md: a list means one unit of each named resource)."""
    lim = sub.options.get("limits") or {}
    if isinstance(lim, (list, tuple)):
        return {name: 1 for name in lim}
    return dict(lim)


class Run:
    def __init__(self):
        self.kind = None          # "ok" | "err" | "quiescent" | "budget"
        self.payload = None
        self.ctl: Optional[C.Ctl] = None
        self.sched = None
        self.limit_violations: list = []
        self.max_waiting = 0
        self.waited = 0             # number of times a job was parked for limits
        self.release_kinds: set = set()
        self.jobs: list = []         # every scheduler Job created during the run


def run_program(prog, decisions=(), limits: Optional[dict] = None, fine=False, backend=None,
                context=None, keep_backend=False, exact=False, expr=None, run_kwargs=None,
                step_budget=None) -> Run:
    import vf_tasks

    r = Run()
    own_backend = backend is None
    sched = C.new_scheduler(backend=backend, limits=limits, context=context)
    budget = step_budget or 4000
    ctl = C.Ctl(decisions, fine=fine, exact=exact, step_budget=budget)
    ctl.attach(sched)
    r.ctl, r.sched = ctl, sched
    configured = dict(limits or {})

    def monitor(kind, payload):
        if kind == "submit":
            held = {}
            for sub in ctl.pending:
                for name, n in demand(sub).items():
                    held[name] = held.get(name, 0) + n
            for name, n in held.items():
                if n > configured.get(name, 1):
                    r.limit_violations.append((name, n, configured.get(name, 1), payload.idx))
        r.max_waiting = max(r.max_waiting, len(sched._jobs_pending_limits))

    ctl.monitors.append(monitor)
    orig_add = sched._add_job_pending_limits

    def counting_add(job, eval_args):
        r.waited += 1
        return orig_add(job, eval_args)

    sched._add_job_pending_limits = counting_add
    import redun.scheduler as S

    orig_job = S.Job

    class TrackedJob(S.Job):
        def __init__(self, *a, **k):
            super().__init__(*a, **k)
            r.jobs.append(self)

    S.Job = TrackedJob
    try:
        e = expr if expr is not None else vf_tasks.node(_fresh(prog), {})
        try:
            v = sched.run(e, **(run_kwargs or {}))
            r.kind, r.payload = "ok", v
        except C.Quiescent as q:
            r.kind, r.payload = "quiescent", q
        except C.StepBudget as b:
            r.kind, r.payload = "budget", b
        except Exception as ex:  # noqa: BLE001 - the program's own failure is an outcome
            r.kind, r.payload = "err", ex
    finally:
        S.Job = orig_job
        if own_backend and not keep_backend:
            dbx.discard_backend(sched.backend)
    return r
