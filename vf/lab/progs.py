"""L2 — program grammar (JSON AST compiled by vf_tasks.comp into real redun expressions), Hypothesis
generator, and an independent eager reference interpreter written from
docs/source/implementation/evaluation.md and the scheduler-task docstrings.

Because sibling sub-expressions are evaluated concurrently and Promise.all rejects with the first
rejection *observed*, the interpreter returns an outcome SET (Out.oks / Out.errs); it is a
singleton for programs with at most one failing sibling per parallel group.
"""
from __future__ import annotations

import itertools

from hypothesis import strategies as st

import vf_types as T
from vf.lab.values import deep_typed_equal

ERRK = ["ValueError", "KeyError", "ZeroDivisionError", "VErr"]
CAP = 64


class PT:
    """Interpreter-side stand-in for a partial task value elem.partial(body, binds)."""

    def __init__(self, body, binds, env, cx):
        self.body, self.binds, self.env, self.cx = body, binds, env, cx


class Thunk:
    def __init__(self, ast, env, cx):
        self.ast, self.env, self.cx = ast, env, cx


class Out:
    """Outcome set. `overflow` marks a set of ok-alternatives that was truncated at CAP: a value
    that matches none of the kept alternatives is then inconclusive, not a mismatch."""
    __slots__ = ("oks", "errs", "overflow")

    def __init__(self, oks=(), errs=(), overflow=False):
        oks = list(oks)
        self.overflow = overflow or len(oks) > CAP
        self.oks = oks[:CAP]
        self.errs = list(errs)

    def then(self, f):
        """Sequential bind: apply f (value -> Out) to every ok alternative; errors pass through."""
        oks, errs, over = [], list(self.errs), self.overflow
        for v in self.oks:
            o = f(v)
            oks.extend(o.oks)
            errs.extend(o.errs)
            over = over or o.overflow
        return Out(oks, errs, over)


def ok(v):
    return Out([v], [])


def err(e):
    return Out([], [e])


def par(outs):
    """Parallel group: ok iff all ok (cartesian product of alternatives); any child's error may
    be the one observed."""
    errs = [e for o in outs for e in o.errs]
    over = any(o.overflow for o in outs)
    if all(o.oks for o in outs):
        total = 1
        for o in outs:
            total *= len(o.oks)
        over = over or total > CAP
        oks = [list(c) for c in itertools.islice(itertools.product(*[o.oks for o in outs]), CAP)]
    else:
        oks = []
    return Out(oks, errs, over)


def attempt(f, *a):
    try:
        return ok(f(*a))
    except Exception as e:  # noqa: BLE001 - the modelled operation's own failure
        return err(e)


def merge_ctx(a, b):
    if isinstance(a, dict) and isinstance(b, dict):
        out = dict(a)
        for k, v in b.items():
            out[k] = merge_ctx(a[k], v) if k in a else v
        return out
    return b


def ctx_lookup(cx, path, default):
    cur = cx
    for part in path.split("."):
        if isinstance(cur, dict) and part in cur:
            cur = cur[part]
        else:
            return default
    return cur


# ------------------------------------------------------------------ raise_now pre-scan (mirrors comp order)
def compiled_children(ast) -> list:
    """Sub-ASTs that vf_tasks.comp compiles as part of the SAME task body (bodies of nested tasks,
    partials, recover tasks etc. are data for other jobs and are not included), in comp order."""
    k = ast[0]
    if k in ("lit", "var", "throw", "getctx", "raise_now", "handle"):
        return []
    if k in ("list", "tuple", "seq", "cond", "set"):
        return list(ast[1])
    if k == "dict":
        return [v for _, v in ast[1]]
    if k in ("nt", "dc"):
        return [ast[1], ast[2]]
    if k in ("task", "ptask", "nout"):
        subs = list(ast[2].values())
        if k == "task" and "optexpr" in ast[3]:
            subs.extend(ast[3]["optexpr"].values())
        if k == "task" and "ctxe" in ast[3]:
            subs.extend(ast[3]["ctxe"].values())
        if k == "task" and "d" in ast[3]:
            subs.append(ast[3]["d"])
        return subs
    if k == "op":
        return [ast[2], ast[3]]
    if k in ("getitem", "getattr", "fork_join", "tags", "peek", "subrun"):
        return [ast[1]]
    if k == "use":
        return [ast[1], ast[2]]
    if k == "let":
        return [ast[2], ast[3]]
    if k == "catch":
        return list(ast[4].values()) + [ast[1]]
    if k == "catch_all":
        return list(ast[1])
    if k == "map":
        return list(ast[2].values()) + [ast[3]]
    if k == "map2":
        return [ast[3]]
    if k == "flat_map":
        return [ast[2]]
    if k == "apply":
        return list(ast[2])
    if k == "callv":
        return [ast[1]] + list(ast[2])
    if k == "mkpartial":
        return list(ast[2].values())
    return []


def scan_raise(ast):
    if ast[0] == "raise_now":
        return ast
    for s in compiled_children(ast):
        r = scan_raise(s)
        if r is not None:
            return r
    return None


# ------------------------------------------------------------------ the reference interpreter
def run_job(body, env, cx):
    """A job: the task body compiles `body` (raise_now aborts the whole body), then the scheduler
    evaluates the returned expression with this job as parent."""
    from vf_tasks import ERR

    r = scan_raise(body)
    if r is not None:
        return err(ERR[r[1]](r[2]))
    return interp(body, env, cx)


def interp(ast, env, cx):
    from vf_tasks import ERR, PYF, SEM

    k = ast[0]
    if k == "lit":
        return ok(T.build(ast[1]))
    if k == "var":
        v = env[ast[1]]
        if isinstance(v, Thunk):
            return interp(v.ast, v.env, v.cx)
        return ok(v)
    if k == "list":
        return par([interp(a, env, cx) for a in ast[1]])
    if k == "tuple":
        return par([interp(a, env, cx) for a in ast[1]]).then(lambda vs: ok(tuple(vs)))
    if k == "set":
        return par([interp(a, env, cx) for a in ast[1]]).then(lambda vs: attempt(set, vs))
    if k == "dict":
        keys = [key for key, _ in ast[1]]
        return par([interp(v, env, cx) for _, v in ast[1]]).then(lambda vs: ok(dict(zip(keys, vs))))
    if k == "nt":
        return par([interp(ast[1], env, cx), interp(ast[2], env, cx)]).then(lambda vs: ok(T.Point(*vs)))
    if k == "dc":
        return par([interp(ast[1], env, cx), interp(ast[2], env, cx)]).then(lambda vs: ok(T.Rec(a=vs[0], b=vs[1])))
    if k in ("task", "ptask", "nout"):
        body, binds = ast[1], ast[2]
        opts = ast[3] if k != "nout" else {}
        names = list(binds)
        # successive update_context calls on one task accumulate into ONE override (each merged
        # into the previous override), which is then merged into the parent's context: with a
        # mapping/non-mapping clash between two overrides that is not the same as merging them into
        # the parent's context one after the other
        over = dict(opts["ctx"]) if "ctx" in opts else {}
        for c_ in opts.get("pctx", []):
            over = merge_ctx(over, c_)
        if "ctxe" in opts:
            # expression-valued overrides are task options: evaluated (by the parent job) before use
            keys = list(opts["ctxe"])
            ov = par([interp(opts["ctxe"][key], env, cx) for key in keys])
            if ov.errs or len(ov.oks) != 1:
                return Out([], ov.errs, True) if not ov.errs else Out([], ov.errs)
            over = merge_ctx(over, dict(zip(keys, ov.oks[0])))
        cx2 = merge_ctx(cx, over) if over or "ctx" in opts or "pctx" in opts or "ctxe" in opts else cx

        def call(vals):
            env2 = dict(zip(names, vals))
            if opts.get("t") == "dnode":
                env2["d"] = 7
                env2["d2"] = 3
            if opts.get("t") == "cnode":
                # defaults are evaluated with the context of the job being called
                env2["c"] = ctx_lookup(cx2, "a", "none")
                env2["c2"] = ctx_lookup(cx2, "b.x", 0)
            if "d" in opts:
                env2["d"] = vals[len(names)]
            if opts.get("executor") == "nope":
                # The executor is looked up only on a cache miss: an identical call made elsewhere
                # (CSE / cache) yields the normal result, otherwise the job is rejected.
                from redun.scheduler import SchedulerError

                normal = run_job(body, env2, cx2)
                return Out(normal.oks, normal.errs + [SchedulerError('Unknown executor "nope"')], normal.overflow)
            if opts.get("t") == "gnode":
                # the default argument is itself a job, evaluated under the context of this call
                from vf_tasks import G_BODY

                return run_job(G_BODY, {}, cx2).then(lambda g: run_job(body, {**env2, "g": g}, cx2))
            return run_job(body, env2, cx2)

        extra = [interp(opts["d"], env, cx)] if "d" in opts else []
        out = par([interp(binds[n], env, cx) for n in names] + extra).then(call)
        if k == "nout":
            i = ast[4]
            return out.then(lambda v: attempt(lambda: v[i]))
        return out
    if k == "op":
        f = SEM[ast[1]]
        mirror = {"lt": "gt", "gt": "lt", "le": "ge", "ge": "le"}.get(ast[1])

        def apply_op(ab):
            out = attempt(f, ab[0], ab[1])
            if mirror and out.errs:
                # `plain < lazy` is evaluated by Python as the reflected `lazy > plain`: the same
                # outcome, but a TypeError then names the mirrored operator and operand order
                out = Out(out.oks, out.errs + attempt(SEM[mirror], ab[1], ab[0]).errs, out.overflow)
            return out

        return par([interp(ast[2], env, cx), interp(ast[3], env, cx)]).then(apply_op)
    if k == "getitem":
        return interp(ast[1], env, cx).then(lambda v: attempt(lambda: v[ast[2]]))
    if k == "getattr":
        return interp(ast[1], env, cx).then(lambda v: attempt(lambda: getattr(v, ast[2])))
    if k == "let":
        env2 = dict(env)
        env2[ast[1]] = Thunk(ast[2], env, cx)
        return interp(ast[3], env2, cx)
    if k == "cond":
        items = ast[1]

        def go(i):
            def branch(c):
                if c:
                    return interp(items[i + 1], env, cx)
                if len(items) - i == 3:
                    return interp(items[i + 2], env, cx)
                return go(i + 2)

            return interp(items[i], env, cx).then(branch)

        return go(0)
    if k == "seq":
        items = ast[1]

        def go(i, acc):
            if i == len(items):
                return ok(list(acc))
            return interp(items[i], env, cx).then(lambda v: go(i + 1, acc + [v]))

        return go(0, [])
    if k == "catch":
        expr, kinds, body, binds = ast[1], ast[2], ast[3], ast[4]
        classes = tuple(ERR[c] for c in kinds)
        o = interp(expr, env, cx)
        oks, errs, over = list(o.oks), [], o.overflow
        names = list(binds)
        for e in o.errs:
            if isinstance(e, classes):
                r = par([interp(binds[n], env, cx) for n in names]).then(
                    lambda vals, e=e: run_job(body, {**dict(zip(names, vals)), "x": e}, cx))
                oks.extend(r.oks)
                errs.extend(r.errs)
                over = over or r.overflow
            else:
                errs.append(e)
        return Out(oks, errs, over)
    if k == "catch_all":
        items, kinds, body = ast[1], ast[2], ast[3]

        # catch_all evaluates the LEAVES of the nested value it is given (map_nested_value): a
        # container written in place contributes its elements as separate terms, and recover()
        # receives the same nesting with results or errors at the leaves.
        def shape(a, e_, c_):
            while a[0] == "var" and isinstance(e_.get(a[1]), Thunk):
                th = e_[a[1]]
                a, e_, c_ = th.ast, th.env, th.cx
            if a[0] in ("list", "tuple", "set"):
                return (a[0], [shape(x, e_, c_) for x in a[1]])
            if a[0] == "dict":
                return ("dict", [key for key, _ in a[1]], [shape(v, e_, c_) for _, v in a[1]])
            if a[0] in ("nt", "dc"):
                return (a[0], [shape(a[1], e_, c_), shape(a[2], e_, c_)])
            return ("leaf", interp(a, e_, c_))

        def leaves(sh, acc):
            if sh[0] == "leaf":
                acc.append(sh[1])
            else:
                for c in sh[-1]:
                    leaves(c, acc)
            return acc

        def has_set(sh):
            return sh[0] == "set" or (sh[0] != "leaf" and any(has_set(c) for c in sh[-1]))

        def rebuild(sh, it):
            if sh[0] == "leaf":
                return next(it)
            kids = [rebuild(c, it) for c in sh[-1]]
            if sh[0] == "list":
                return kids
            if sh[0] == "tuple":
                return tuple(kids)
            if sh[0] == "set":
                return set(kids)
            if sh[0] == "dict":
                return dict(zip(sh[1], kids))
            if sh[0] == "nt":
                return T.Point(*kids)
            return T.Rec(a=kids[0], b=kids[1])

        top = ("list", [shape(a, env, cx) for a in items])
        outs = leaves(top, [])
        unordered = has_set(top)
        alts = [[("ok", v) for v in o.oks] + [("err", e) for e in o.errs] for o in outs]
        oks, errs = [], []
        total = 1
        for a in alts:
            total *= max(1, len(a))
        over = any(o.overflow for o in outs) or total > CAP
        for combo in itertools.islice(itertools.product(*alts), CAP):
            es = [v for t, v in combo if t == "err"]
            classes = tuple(ERR[c] for c in kinds) if body is not None else ()
            vals = None
            if not es or (body is not None and all(isinstance(e, classes) for e in es)):
                try:
                    vals = rebuild(top, iter([v for _, v in combo]))
                except Exception as e:  # noqa: BLE001 - e.g. unhashable set element: raised while resolving
                    errs.append(e)
                    continue
            if not es:
                oks.append(vals)
            elif body is None:
                errs.extend(es if unordered else es[:1])
            else:
                if all(isinstance(e, classes) for e in es):
                    r = run_job(body, {"x": vals}, cx)
                    oks.extend(r.oks)
                    errs.extend(r.errs)
                    over = over or r.overflow
                else:
                    bad = [e for e in es if not isinstance(e, classes)]
                    errs.extend(bad if unordered else bad[:1])
        return Out(oks, errs, over)
    if k == "map":
        body, binds, xs = ast[1], ast[2], ast[3]
        names = list(binds)

        def each(x):
            return par([interp(binds[n], env, cx) for n in names]).then(
                lambda vals: run_job(body, {**dict(zip(names, vals)), "x": x}, cx))

        # A list written in the body compiles to a Python list that may hold expressions: map_
        # passes each element, unevaluated, as an argument of the mapped call, so it is evaluated
        # in parallel with the partial's bound arguments (evaluation.md: arguments are evaluated
        # concurrently).
        static = xs
        senv, scx = env, cx
        while static[0] == "var" and isinstance(senv.get(static[1]), Thunk):
            th = senv[static[1]]
            static, senv, scx = th.ast, th.env, th.cx
        if static[0] == "list":
            def each_static(e_ast):
                return par([interp(binds[n], env, cx) for n in names] + [interp(e_ast, senv, scx)]).then(
                    lambda vals: run_job(body, {**dict(zip(names, vals[:-1])), "x": vals[-1]}, cx))

            return par([each_static(e) for e in static[1]])

        def over(vs):
            try:
                seq_ = list(vs)
            except TypeError as e:
                return err(e)
            return par([each(x) for x in seq_])

        return interp(xs, env, cx).then(over)
    if k == "map2":
        g, f, xs = ast[1], ast[2], ast[3]

        def over2(vs):
            try:
                seq_ = list(vs)
            except TypeError as e:
                return err(e)
            # fused: compose(g, f) applied per element, elements in parallel
            return par([run_job(f, {"x": x}, cx).then(lambda y: run_job(g, {"x": y}, cx)) for x in seq_])

        # as for "map": the elements of a list written in place are passed on unevaluated, each
        # evaluated as the argument of its own composed call, in parallel with the others
        static, senv, scx = xs, env, cx
        while static[0] == "var" and isinstance(senv.get(static[1]), Thunk):
            th = senv[static[1]]
            static, senv, scx = th.ast, th.env, th.cx
        if static[0] == "list":
            return par([interp(e, senv, scx).then(lambda x: run_job(f, {"x": x}, cx)).then(lambda y: run_job(g, {"x": y}, cx))
                        for e in static[1]])
        return interp(xs, env, cx).then(over2)
    if k == "flat_map":
        body, xs = ast[1], ast[2]

        def overf(vs):
            try:
                seq_ = list(vs)
            except TypeError as e:
                return err(e)
            return par([run_job(body, {"x": x}, cx) for x in seq_]).then(
                lambda lists: attempt(lambda: [v for lst in lists for v in lst]))

        # flat_map = flatten(map_(..)): a list written in place is mapped element by element (see "map")
        static, senv, scx = xs, env, cx
        while static[0] == "var" and isinstance(senv.get(static[1]), Thunk):
            th = senv[static[1]]
            static, senv, scx = th.ast, th.env, th.cx
        if static[0] == "list":
            return par([interp(e, senv, scx).then(lambda x: run_job(body, {"x": x}, cx)) for e in static[1]]).then(
                lambda lists: attempt(lambda: [v for lst in lists for v in lst]))
        return interp(xs, env, cx).then(overf)
    if k == "apply":
        f = PYF[ast[1]]
        return par([interp(a, env, cx) for a in ast[2]]).then(lambda vs: attempt(f, *vs))
    if k == "fork_join":
        return interp(ast[1], env, cx)
    if k == "subrun":
        # evaluating through a sub-scheduler is equivalent to direct evaluation (C38); the
        # sub-scheduler inherits the calling job's context
        return interp(ast[1], env, cx)
    if k == "tags":
        return interp(ast[1], env, cx)
    if k == "throw":
        return err(ERR[ast[1]](ast[2]))
    if k == "raise_now":
        return err(ERR[ast[1]](ast[2]))
    if k == "mkpartial":
        return ok(PT(ast[1], ast[2], env, cx))
    if k == "callv":
        def call(fa):
            f, x = fa[0], fa[1]
            if not isinstance(f, PT):
                return attempt(lambda: f(x))
            names = list(f.binds)
            # the partial's bound expressions were built where it was defined (its env) but are
            # evaluated as arguments of the new call, i.e. by the calling job (its context)
            return par([interp(f.binds[n], f.env, cx) for n in names]).then(
                lambda vals: run_job(f.body, {**dict(zip(names, vals)), "x": x}, cx))

        return par([interp(ast[1], env, cx), interp(ast[2][0], env, cx)]).then(call)
    if k == "getctx":
        return ok(ctx_lookup(cx, ast[1], ast[2]))
    raise ValueError(f"unknown node {k}")


def fresh(prog):
    """Deep copy of an AST whose strings are fresh (non-interned) objects.

    redun's value hash is a hash of the pickle, and pickle memoises by object identity: an AST
    string such as 'task' that happens to be the same interned object as a key of
    PartialTask.__getstate__ is shared in the first pickle but not after a round trip, so the
    recorded hash of such a value changes when it is read back. That identity dependence is
    C16's subject (known finding there); the programs run by the scheduler-level checks are
    de-interned so that they do not trip over it.
    """
    import json

    return json.loads(json.dumps(prog))


def reference(prog, context=None) -> Out:
    """Outcome set of Scheduler.run(node(prog, {}))."""
    return run_job(prog, {}, context or {})


def err_key(e) -> tuple:
    return (type(e).__name__, str(e))


def values_match(real, model) -> bool:
    from redun.task import PartialTask

    if isinstance(model, PT):
        return isinstance(real, PartialTask)
    if type(real) is not type(model):
        return False
    if isinstance(model, (list, tuple)):
        return len(real) == len(model) and all(values_match(a, b) for a, b in zip(real, model))
    if isinstance(model, dict):
        return real.keys() == model.keys() and all(values_match(real[k], model[k]) for k in model)
    if isinstance(model, Exception):
        return err_key(real) == err_key(model)
    return deep_typed_equal(real, model)


def outcome_in(kind, payload, out: Out) -> bool:
    if out.overflow:
        return True     # the reference set was truncated: inconclusive, never a mismatch
    if kind == "ok":
        return any(values_match(payload, v) for v in out.oks)
    return any(err_key(payload) == err_key(e) for e in out.errs)


# ------------------------------------------------------------------ features
def features(ast, acc=None, depth=0):
    """Set of node kinds used, plus job depth ("jobs:<n>")."""
    acc = acc if acc is not None else {"kinds": set(), "jobdepth": 0, "nodes": 0}
    k = ast[0]
    acc["kinds"].add(k)
    acc["nodes"] += 1
    acc["jobdepth"] = max(acc["jobdepth"], depth)

    def go(a, d=depth):
        features(a, acc, d)

    if k in ("list", "tuple", "seq", "cond", "set"):
        for a in ast[1]:
            go(a)
    elif k == "dict":
        for _, v in ast[1]:
            go(v)
    elif k in ("nt", "dc"):
        go(ast[1]); go(ast[2])
    elif k in ("task", "ptask", "nout"):
        for b in ast[2].values():
            go(b)
        go(ast[1], depth + 1)
        if k != "nout":
            o = ast[3]
            if o.get("t", "node") != "node":
                acc["kinds"].add("t:" + o["t"])
            for name in ("executor", "limits", "ctx", "export", "cache", "cache_scope", "check_valid", "prov"):
                if name in o:
                    acc["kinds"].add("opt:" + name)
    elif k == "op":
        acc["kinds"].add("op:" + ast[1])
        go(ast[2]); go(ast[3])
    elif k in ("getitem", "getattr", "fork_join", "tags", "subrun"):
        go(ast[1])
    elif k == "let":
        go(ast[2]); go(ast[3])
    elif k == "catch":
        go(ast[1]); go(ast[3], depth + 1)
        for b in ast[4].values():
            go(b)
    elif k == "catch_all":
        for a in ast[1]:
            go(a)
        if ast[3] is not None:
            go(ast[3], depth + 1)
    elif k == "map":
        go(ast[1], depth + 1); go(ast[3])
        for b in ast[2].values():
            go(b)
    elif k == "map2":
        go(ast[1], depth + 1); go(ast[2], depth + 1); go(ast[3])
    elif k == "flat_map":
        go(ast[1], depth + 1); go(ast[2])
    elif k == "apply":
        for a in ast[2]:
            go(a)
    elif k == "callv":
        go(ast[1])
        for a in ast[2]:
            go(a)
    elif k == "mkpartial":
        go(ast[1], depth + 1)
        for b in ast[2].values():
            go(b)
    return acc


CONTROL = {"cond", "seq", "catch", "catch_all", "map", "map2", "flat_map", "apply", "fork_join", "tags", "callv"}
ERRORS = {"throw", "raise_now"}


def nontrivial_c01(f) -> bool:
    ks = f["kinds"]
    return f["jobdepth"] >= 2 and bool(ks & CONTROL or any(k.startswith("op:") for k in ks) or ks & ERRORS
                                       or "ptask" in ks or "t:dnode" in ks
                                       or ks & {"list", "tuple", "dict", "nt", "dc", "set"})


# ------------------------------------------------------------------ generator
small_int = st.integers(-3, 5)


def lit_int(draw):
    return ["lit", ["int", draw(small_int)]]


@st.composite
def programs(draw, max_depth=3, modes=("node",), errors=True, ctxs=False, limits=(), opts_rich=False,
             allow=None, bad_exec=False):
    """A program = body of the root job (run as node(prog, {}))."""
    budget = [draw(st.integers(6, 26))]
    uniq = [0]
    # error leaves only in ~40% of programs, so most programs evaluate completely
    err_on = errors and draw(st.integers(0, 4)) < 2
    allow_set = set(allow) if allow else None

    def permitted(kind):
        return allow_set is None or kind in allow_set

    def gen_opts():
        o = {}
        m = draw(st.sampled_from(modes))
        if m != "node":
            o["t"] = m
        if limits and draw(st.integers(0, 2)) == 0:
            names = draw(st.lists(st.sampled_from(limits), min_size=1, max_size=2, unique=True))
            if draw(st.booleans()):
                o["limits"] = names
            else:
                o["limits"] = {n: draw(st.integers(1, 2)) for n in names}
        if ctxs and draw(st.integers(0, 2)) == 0:
            o["ctx"] = draw(ctx_dicts)
        if opts_rich and draw(st.integers(0, 3)) == 0:
            o["cache"] = draw(st.booleans())
        if bad_exec and draw(st.integers(0, 5)) == 0:
            o["executor"] = "nope"
        return o

    def gen_binds(vars_, depth, n=None):
        n = draw(st.integers(0, 2)) if n is None else n
        names = ["a", "b", "c"][:n]
        return {nm: gen(vars_, depth, "any") for nm in names}

    def gen_body(bvars, depth, want="any"):
        return gen(bvars, depth, want)

    def gen_list(vars_, depth):
        n = draw(st.integers(0, 3))
        return ["list", [gen(vars_, depth - 1, "int") for _ in range(n)]]

    def gen(vars_, depth, want):
        budget[0] -= 1
        if depth <= 0 or budget[0] <= 0:
            if vars_ and draw(st.booleans()):
                return ["var", draw(st.sampled_from(sorted(vars_)))]
            return lit_int(draw)
        kinds = ["lit", "var", "task", "task", "task", "task", "task", "op", "op", "list", "cond", "seq", "catch", "map", "apply",
                 "let", "ptask", "dict", "tuple", "getitem", "fork_join", "tags", "catch_all", "flat_map", "map2",
                 "nt", "dc", "getattr", "callv", "nout", "set"]
        if err_on:
            kinds += ["throw", "div0", "raise_now_task", "boom"]
        if ctxs:
            kinds += ["getctx", "getctx"]
        kinds = [k_ for k_ in kinds if permitted(k_)]
        k = draw(st.sampled_from(kinds))
        return make(k, vars_, depth)

    def err_leaf():
        k = draw(st.sampled_from(["throw", "throw", "div0", "boom", "raise_now_task"]))
        return make(k, set(), 1)

    def maybe_err(vars_, depth, p=2):
        """An expression that fails with probability ~1/p (only when errors are enabled)."""
        if errors and draw(st.integers(1, p)) == 1:
            return err_leaf()
        return gen(vars_, depth, "any")

    def make(k, vars_, depth):
        if k == "lit":
            return lit_int(draw)
        if k == "var":
            if vars_:
                return ["var", draw(st.sampled_from(sorted(vars_)))]
            return lit_int(draw)
        if k in ("task", "ptask"):
            binds = gen_binds(vars_, depth - 1)
            o = gen_opts()
            bvars = set(binds) | ({"d", "d2"} if o.get("t") == "dnode" else set())
            if o.get("t") == "dnode" and k == "task" and draw(st.booleans()):
                o["d"] = gen(vars_, depth - 1, "int")      # the defaulted parameter passed explicitly
                body = ["list", [["var", "d"], gen_body(bvars, depth - 1)]]
                return [k, body, binds, o]
            body = gen_body(bvars, depth - 1)
            if o.get("executor") == "nope":
                # unique body: no identical twin call exists, so CSE cannot hand this call (or take
                # from it) another call's outcome
                uniq[0] += 1
                body = ["list", [["lit", ["int", 1000 + uniq[0]]], body]]
            return [k, body, binds, o]
        if k == "nout":
            n = draw(st.integers(1, 3))
            body = ["list", [lit_int(draw) if draw(st.booleans()) else gen(set(), depth - 2, "int") for _ in range(n)]]
            return ["nout", body, {}, n, draw(st.integers(0, n - 1))]
        if k == "op":
            name = draw(st.sampled_from(["add", "sub", "mul", "eq", "lt", "and", "or", "sub", "ge", "ne", "div", "and", "or"]))
            shape = draw(st.sampled_from(["ee", "le", "el", "any"]))
            tk = lambda: ["task", lit_int(draw) if draw(st.booleans()) else gen(set(), depth - 2, "int"), {}, {}]  # noqa: E731
            if shape == "le":      # concrete left, lazy right: reflected operator
                return ["op", name, lit_int(draw), tk()]
            if shape == "el":
                return ["op", name, tk(), lit_int(draw)]
            if shape == "ee":
                return ["op", name, tk(), tk()]
            return ["op", name, gen(vars_, depth - 1, "int"), gen(vars_, depth - 1, "int")]
        if k == "div0":
            return ["op", "div", gen(vars_, depth - 1, "int"), ["lit", ["int", draw(st.sampled_from([0, 0, 2]))]]]
        if k == "list":
            return ["list", [gen(vars_, depth - 1, "any") for _ in range(draw(st.integers(0, 3)))]]
        if k == "tuple":
            return ["tuple", [gen(vars_, depth - 1, "any") for _ in range(draw(st.integers(0, 2)))]]
        if k == "set":
            def slit():
                # 0..3 only: element values then stay within 0..6, which never collide in CPython's
                # 8-slot set table, so the iteration order of the set does not depend on insertion
                # order. (Colliding elements such as -3 and 5 make the pickle-based hash of any
                # container holding the set history-dependent: C16's open finding, checked there.)
                return ["lit", ["int", draw(st.integers(0, 3))]]

            def selem():
                c = draw(st.integers(0, 2))
                if c == 0:
                    return slit()
                if c == 1:
                    return ["task", slit(), {}, {}]
                return ["op", "add", ["task", slit(), {}, {}], slit()]
            return ["set", [selem() for _ in range(draw(st.integers(0, 3)))]]
        if k == "dict":
            keys = draw(st.lists(st.sampled_from(["k", "m", 1, 2]), max_size=2, unique=True))
            return ["dict", [[key, gen(vars_, depth - 1, "any")] for key in keys]]
        if k == "nt":
            return ["nt", gen(vars_, depth - 1, "any"), gen(vars_, depth - 1, "any")]
        if k == "dc":
            return ["dc", gen(vars_, depth - 1, "any"), gen(vars_, depth - 1, "any")]
        if k == "getitem":
            if draw(st.booleans()):
                inner = ["task", ["list", [gen(set(), depth - 1, "any") for _ in range(draw(st.integers(1, 2)))]], {}, {}]
            else:
                inner = ["list", [gen(vars_, depth - 1, "any") for _ in range(draw(st.integers(1, 2)))]]
            return ["getitem", inner, draw(st.sampled_from([0, 0, 1, 5] if err_on else [0]))]
        if k == "getattr":
            return ["getattr", ["task", ["nt", gen(set(), depth - 2, "int"), lit_int(draw)], {}, {}],
                    draw(st.sampled_from(["x", "y"] + (["z"] if err_on else [])))]
        if k == "let":
            name = draw(st.sampled_from(["s", "u"]))
            val = gen(vars_, depth - 1, "any")
            return ["let", name, val, gen(set(vars_) | {name}, depth - 1, "any")]
        if k == "cond":
            n = draw(st.sampled_from([3, 5, 5, 7]))
            return ["cond", [gen(vars_, depth - 1, "int") for _ in range(n)]]
        if k == "seq":
            return ["seq", [gen(vars_, depth - 1, "any") for _ in range(draw(st.integers(0, 3)))]]
        if k == "catch":
            kinds_ = draw(st.lists(st.sampled_from(ERRK + ["Exception", "LookupError", "ArithmeticError"]),
                                   min_size=1, max_size=2, unique=True))
            binds = gen_binds(vars_, depth - 1, draw(st.integers(0, 1)))
            body = gen_body(set(binds) | set(), depth - 1)
            if draw(st.booleans()):
                body = ["list", [body, ["apply", "err_info", [["var", "x"]]]]]
            return ["catch", maybe_err(vars_, depth - 1, 2), kinds_, body, binds]
        if k == "catch_all":
            items = [maybe_err(vars_, depth - 1, 2) for _ in range(draw(st.integers(0, 4)))]
            if draw(st.booleans()):
                return ["catch_all", items, [], None]
            kinds_ = draw(st.lists(st.sampled_from(ERRK + ["Exception"]), min_size=1, max_size=2, unique=True))
            body = draw(st.sampled_from([["apply", "count_errors", [["var", "x"]]], ["lit", ["int", 0]],
                                         ["throw", "VErr", "recover failed"]]))
            return ["catch_all", items, kinds_, body]
        if k == "map":
            binds = gen_binds(vars_, depth - 1, draw(st.integers(0, 1)))
            body = gen_body(set(binds) | {"x"}, depth - 1)
            return ["map", body, binds, gen_list(vars_, depth)]
        if k == "map2":
            g = ["op", "add", ["var", "x"], lit_int(draw)]
            f = gen_body({"x"}, depth - 2)
            return ["map2", g, f, gen_list(vars_, depth)]
        if k == "flat_map":
            body = ["list", [["var", "x"], gen_body({"x"}, depth - 2)]]
            if err_on and draw(st.integers(0, 5)) == 0:
                body = ["var", "x"]
            return ["flat_map", body, gen_list(vars_, depth)]
        if k == "apply":
            f = draw(st.sampled_from(["sum", "len", "neg", "pair"]))
            if f in ("sum", "len"):
                return ["apply", f, [gen_list(vars_, depth)]]
            if f == "neg":
                return ["apply", f, [gen(vars_, depth - 1, "int")]]
            return ["apply", f, [gen(vars_, depth - 1, "any") for _ in range(draw(st.integers(1, 2)))]]
        if k == "boom":
            return ["apply", "boom", [lit_int(draw)]]
        if k == "fork_join":
            return ["fork_join", gen(vars_, depth - 1, "any")]
        if k == "tags":
            return ["tags", gen(vars_, depth - 1, "any"), [["tk", draw(small_int)]], [["jk", "v"]] if draw(st.booleans()) else []]
        if k == "throw":
            return ["throw", draw(st.sampled_from(ERRK)), draw(st.sampled_from(["e1", "e2", "k"]))]
        if k == "raise_now_task":
            return ["task", ["list", [lit_int(draw), ["raise_now", draw(st.sampled_from(ERRK)), "now"]]], {}, {}]
        if k == "callv":
            body = gen_body({"x"}, depth - 2)
            mk = ["mkpartial", body, {}]
            if draw(st.booleans()):
                mk = ["task", mk, {}, {}]      # a task that returns a partial task value
            return ["callv", mk, [gen(vars_, depth - 1, "int")]]
        if k == "getctx":
            return ["getctx", draw(st.sampled_from(["a", "b", "a.x", "a.y", "b.x", "a.x.z", "zz"])),
                    draw(st.sampled_from([None, 0, "dflt"]))]
        return lit_int(draw)

    focus = draw(st.sampled_from(["any", "any", "catch", "catch_all", "op", "cond", "seq", "map", "map2", "task",
                                  "callv", "flat_map", "nout", "let", "getitem", "dexplicit", "set", "ptwin", "refail"]))
    if focus == "ptwin" and permitted("map"):
        # two sibling uses of partial tasks that differ ONLY in the value a partial binds (same
        # body, same remaining arguments): distinct task values, so distinct calls
        body = ["list", [["var", "a"], ["var", "x"]]] if draw(st.booleans()) else ["op", "add", ["var", "a"], ["var", "x"]]
        v1 = draw(small_int)
        v2 = draw(small_int.filter(lambda v: v != v1))
        form = draw(st.sampled_from(["map", "callv", "catch"]))
        xs = ["list", [lit_int(draw) for _ in range(draw(st.integers(1, 2)))]]
        arg = lit_int(draw)

        def twin(v):
            b = {"a": ["lit", ["int", v]]}
            if form == "map":
                return ["map", body, b, xs]
            if form == "callv" and permitted("callv"):
                return ["callv", ["mkpartial", body, b], [arg]]
            if permitted("catch") and errors:
                return ["catch", ["throw", "ValueError", "e1"], ["ValueError"], ["var", "a"], b]
            return ["map", body, b, xs]

        pair = [twin(v1), twin(v2)]
        shape = draw(st.sampled_from(["list", "seq", "tasks"]))
        if shape == "seq" and permitted("seq"):
            return ["seq", pair]
        if shape == "tasks":
            return ["list", [["task", pair[0], {}, {}], ["task", pair[1], {}, {}]]]
        return ["list", pair]
    if focus == "refail" and errors and permitted("catch") and permitted("seq") and permitted("let"):
        # one failing expression reached twice under the same parent job: first handled by a catch,
        # then, after it has already failed, as an element nested in a container (of a later seq
        # item, a cond branch, or a task argument): the container must fail too
        ek = draw(st.sampled_from(ERRK))
        fail = draw(st.sampled_from([["task", ["throw", ek, "e1"], {}, {}], ["throw", ek, "e2"],
                                     ["task", ["list", [lit_int(draw), ["raise_now", ek, "now"]]], {}, {}]]))
        box = draw(st.sampled_from(["list", "tuple", "dict", "nt", "dc"]))
        s_ = ["var", "s"]
        held = {"list": ["list", [lit_int(draw), s_]], "tuple": ["tuple", [s_, lit_int(draw)]], "dict": ["dict", [["k", s_]]],
                "nt": ["nt", lit_int(draw), s_], "dc": ["dc", s_, lit_int(draw)]}[box]
        use2 = draw(st.sampled_from([["task", ["var", "a"], {"a": held}, {}], held, ["apply", "pair", [held]]]))
        caught = ["catch", s_, ["Exception"], lit_int(draw), {}]
        form = draw(st.sampled_from(["seq", "seq", "cond"]))
        if form == "seq":
            inner = ["seq", [caught, use2]]
        else:
            inner = ["list", [caught, ["cond", [["task", lit_int(draw), {}, {}], use2, use2]]]]
        return ["let", "s", fail, inner]
    if focus == "dexplicit" and "dnode" in modes:
        core = ["task", ["list", [["var", "d"], ["var", "d2"], gen({"d", "d2"}, max_depth - 1, "any")]], {},
                {"t": "dnode", "d": gen(set(), max_depth - 1, "int")}]
        return core if draw(st.booleans()) else ["task", core, {}, {}]
    if focus == "any" or focus in ("dexplicit", "ptwin", "refail") or not permitted(focus):
        return gen(set(), max_depth, "any")
    core = make(focus, set(), max_depth)
    wrap = draw(st.sampled_from(["none", "task", "list"]))
    if wrap == "task":
        return ["task", core, {}, {}]
    if wrap == "list":
        return ["list", [core, gen(set(), max_depth - 1, "any")]]
    return core


ctx_vals = st.one_of(st.integers(0, 3), st.sampled_from(["s", None]),
                     st.dictionaries(st.sampled_from(["x", "y", "z"]), st.integers(0, 3), max_size=2))
ctx_dicts = st.dictionaries(st.sampled_from(["a", "b"]), ctx_vals, max_size=2)
