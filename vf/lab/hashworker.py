"""Value-hash worker (C16): a fresh interpreter that hashes value specs.

Protocol: one JSON document per line on stdin -- a list of L1 value specs (vf/lab/values.py) --
answered by one JSON line on stdout: a list with, per spec, either the hash string or
{"exc": type name, "msg": text, "where": innermost frame inside the repo's redun package or null}.
The interpreter's PYTHONHASHSEED is whatever the parent put in the environment; the first line
written is a hello record {"hashseed": ..., "redun": path} so the parent can verify both.

Run as a script (`python hashworker.py`), never imported by the harness process.
"""
from __future__ import annotations

import json
import os
import sys


def main() -> int:
    from redun.value import get_type_registry

    import redun
    from vf.core import redun_frame
    from vf.lab import values as V

    reg = get_type_registry()
    out = sys.stdout
    out.write(json.dumps({"hashseed": os.environ.get("PYTHONHASHSEED"),
                          "redun": os.path.dirname(os.path.realpath(redun.__file__))}) + "\n")
    out.flush()
    for line in sys.stdin:
        line = line.strip()
        if not line:
            continue
        res = []
        for spec in json.loads(line):
            try:
                v = V.build(spec)
                h = reg.get_hash(v)
                # the key the backend records the value under (record_value hashes the serialised bytes)
                vi = reg.get_value(v)
                hr = vi.get_hash(data=vi.serialize())
                if hr != h:
                    res.append({"exc": "RecordedHashDiffers", "msg": f"get_hash(v)={h[:10]} but get_value(v).get_hash(data=serialize())={hr[:10]} "
                                "(the hash a value is recorded under is not its argument/result hash)", "where": "value.py:get_hash(data)"})
                else:
                    res.append(h)
            except Exception as e:  # noqa: BLE001
                res.append({"exc": type(e).__name__, "msg": str(e)[:300], "where": redun_frame(e)})
        out.write(json.dumps(res) + "\n")
        out.flush()
    return 0


if __name__ == "__main__":
    sys.exit(main())
