"""Coverage-guided campaigns: atheris (libFuzzer) drives a property module's Hypothesis test through
fuzz_one_input, so the generator, the oracle and the known-finding handling are the same as in the
Hypothesis tier. Runs in a child process (libFuzzer calls _exit)."""
from __future__ import annotations

import json
import os
import subprocess
import sys
import tempfile

from vf.core import VERIF_DIR, Ctx, Violation, jsonable, unjson


def atheris_campaign(ctx: Ctx, module: str, runs: int, seeds: list[bytes] | None = None) -> None:
    try:
        import atheris  # noqa: F401
    except Exception as e:  # noqa: BLE001
        ctx.notes.append(f"atheris unavailable ({type(e).__name__}); Hypothesis-only run.")
        return
    out = os.path.join(ctx.scratch(), "fuzz-out.json")
    corpus = ctx.fresh_dir("corpus")
    for i, s in enumerate(seeds or []):
        with open(os.path.join(corpus, f"seed{i}"), "wb") as f:
            f.write(s)
    seed = ctx.seed * 1000 + (ctx.shard or 0) + 1
    cmd = [sys.executable, "-m", "vf.lab.fuzz", module, str(runs), str(seed), out, corpus]
    p = subprocess.run(cmd, cwd=VERIF_DIR, stdout=subprocess.DEVNULL, stderr=subprocess.DEVNULL)
    if not os.path.exists(out):
        ctx.notes.append(f"atheris campaign produced no output (rc={p.returncode}).")
        return
    with open(out) as f:
        res = json.load(f)
    ctx.evaluations += res["evaluations"]
    ctx.nt_digests.update(res["nt"])
    for k, v in res["labels"].items():
        ctx.labels[k] += v
    for k, v in res["known_hits"].items():
        ctx.known_hits[k] += v
    ctx.coverage_extra["atheris_runs"] = ctx.coverage_extra.get("atheris_runs", 0) + res["runs"]
    if res.get("violation"):
        v = res["violation"]
        raise Violation(v["key"], v["message"], unjson(v["case"]))


def _child(module: str, runs: int, seed: int, out: str, corpus: str) -> None:
    import importlib

    import atheris

    mod = importlib.import_module(module)
    fuzz_one, fctx = mod.fuzz_entry()
    state = {"runs": 0}

    def dump(violation=None):
        with open(out + ".tmp", "w") as f:
            json.dump({
                "runs": state["runs"], "evaluations": fctx.evaluations,
                "nt": sorted(fctx.nt_digests), "labels": dict(fctx.labels),
                "known_hits": dict(fctx.known_hits), "violation": violation,
            }, f, default=repr)
        os.replace(out + ".tmp", out)

    def one(data: bytes) -> None:
        state["runs"] += 1
        try:
            fuzz_one(data)
        except Violation as v:
            if not fctx.absorb(v):
                dump({"key": v.key, "message": v.message, "case": jsonable(v.case)})
                os._exit(0)
        if state["runs"] % 2000 == 0 or state["runs"] >= runs:
            dump()

    dump()
    atheris.Setup([sys.argv[0], f"-runs={runs}", f"-seed={seed}", "-max_len=512", corpus], one)
    atheris.Fuzz()


if __name__ == "__main__":
    _child(sys.argv[1], int(sys.argv[2]), int(sys.argv[3]), sys.argv[4], sys.argv[5])
