"""L3 — controlled scheduler: the events queue and the executors are harness-owned, so the order in
which jobs complete is an input (a list of small integers) that can be generated, enumerated,
shrunk and replayed. Single-threaded: a "completion" runs the task function synchronously and
reports through the scheduler's own done_job / reject_job.
"""
from __future__ import annotations

import collections
import logging
from typing import Any, Callable, Iterable, Optional


class Quiescent(Exception):
    """No queued event and no pending job while the workflow promise is still pending."""


class StepBudget(Exception):
    """The controlled loop exceeded its step budget (inconclusive, not a violation)."""


class Submission:
    __slots__ = ("idx", "job", "executor", "task_name", "task_hash", "eval_hash", "args_hash",
                 "context_hash", "options", "limits", "args", "script", "done", "outcome", "job_id")

    def __init__(self, idx, job, executor, script):
        self.idx = idx
        self.job = job
        self.job_id = job.id
        self.executor = executor
        self.task_name = job.task.fullname
        self.task_hash = job.task.hash
        self.eval_hash = job.eval_hash
        self.args_hash = job.args_hash
        self.context_hash = job.context_hash
        self.options = dict(job.get_options())
        self.limits = dict(job.get_limits())
        self.args = job.args
        self.script = script
        self.done = False
        self.outcome = None

    def key(self):
        return (self.task_hash, self.args_hash, self.context_hash)


def make_executor_class():
    from redun.executors.base import Executor

    class CtlExecutor(Executor):
        def __init__(self, name, ctl, async_ok=False):
            super().__init__(name)
            self.ctl = ctl
            self.async_ok = async_ok

        def supports_async(self):
            return self.async_ok

        def submit(self, job):
            self.ctl.on_submit(self, job, False)

        def submit_script(self, job):
            self.ctl.on_submit(self, job, True)

        def scratch_root(self):
            return self.ctl.scratch_root

    return CtlExecutor


class CtlQueue:
    def __init__(self, ctl):
        self.q = collections.deque()
        self.ctl = ctl

    def put(self, item, *a, **k):
        self.q.append(item)

    def get(self, timeout=None, *a, **k):
        return self.ctl.next_event()

    def empty(self):
        return not self.q

    def qsize(self):
        return len(self.q)


class Ctl:
    def __init__(self, decisions: Iterable[int] = (), step_budget: int = 20000, exact: bool = False,
                 scratch_root: str = "/tmp/redun-vf", fine: bool = False):
        # fine=False: queued events are always drained first, a decision only picks which pending
        #   job completes next (the space of completion orders).
        # fine=True: at every get() a completion may also be slipped in before the next queued
        #   event (the full space: a job may finish between any two scheduler events).
        self.fine = fine
        self.decisions = list(decisions)
        self.di = 0
        self.exact = exact            # DFS mode: decisions index options directly
        self.branching: list[int] = []   # number of options at each decision point
        self.choices: list[int] = []     # the choice taken at each decision point
        self.pending: list[Submission] = []
        self.submissions: list[Submission] = []
        self.calls: collections.Counter = collections.Counter()
        self.call_log: list[tuple] = []
        self.trace: list[tuple] = []
        self.steps = 0
        self.step_budget = step_budget
        self.monitors: list[Callable[[str, Any], None]] = []
        self.scheduler = None
        self.queue = CtlQueue(self)
        self.scratch_root = scratch_root
        self.submitted_after_settle = 0
        self.completion_order: list[int] = []
        self.func_override: Optional[Callable] = None

    # ------------------------------------------------------------ wiring
    def attach(self, scheduler, names=("default", "process"), async_ok=False):
        cls = make_executor_class()
        self.scheduler = scheduler
        scheduler.events_queue = self.queue
        for name in names:
            scheduler.add_executor(cls(name, self, async_ok=async_ok))
        return self

    def emit(self, kind: str, payload: Any = None) -> None:
        for m in self.monitors:
            m(kind, payload)

    # ------------------------------------------------------------ executor side
    def on_submit(self, executor, job, script: bool) -> None:
        sub = Submission(len(self.submissions), job, executor.name, script)
        wp = self.scheduler.workflow_promise
        if wp is not None and not wp.is_pending:
            self.submitted_after_settle += 1
        self.pending.append(sub)
        self.submissions.append(sub)
        self.trace.append(("submit", sub.idx, sub.task_name))
        self.emit("submit", sub)

    def complete(self, sub: Submission) -> None:
        from redun.executors.local import set_current_job

        self.pending.remove(sub)
        sub.done = True
        self.completion_order.append(sub.idx)
        job = sub.job
        args, kwargs = job.args
        self.calls[sub.task_name] += 1
        self.call_log.append((sub.task_name, sub.args_hash))
        self.trace.append(("complete", sub.idx, sub.task_name))
        set_current_job(self.scheduler, job)
        try:
            if self.func_override is not None:
                result = self.func_override(sub, args, kwargs)
            elif sub.script:
                raise NotImplementedError("script tasks are not run by the controlled executor")
            else:
                result = job.task.func(*args, **kwargs)
        except Exception as error:  # noqa: BLE001 - the task's own failure
            sub.outcome = ("error", error)
            self.emit("complete", sub)
            self.scheduler.reject_job(job, error)
            return
        sub.outcome = ("ok", result)
        self.emit("complete", sub)
        self.scheduler.done_job(job, result)

    # ------------------------------------------------------------ the decision point
    def _decide(self, n: int) -> int:
        if n == 1:
            return 0
        if self.di < len(self.decisions):
            d = self.decisions[self.di]
            self.di += 1
            c = d if self.exact else d % n
            if c >= n:
                c = n - 1
        else:
            c = 0
        self.branching.append(n)
        self.choices.append(c)
        return c

    def next_event(self):
        while True:
            self.steps += 1
            if self.steps > self.step_budget:
                raise StepBudget(f"more than {self.step_budget} scheduler steps")
            opts = []
            if self.queue.q:
                opts.append(None)
            if self.fine or not self.queue.q:
                opts.extend(self.pending)
            if not opts:
                self.emit("quiescent", None)
                raise Quiescent("no queued event and no pending job, workflow promise still pending")
            pick = opts[self._decide(len(opts))]
            if pick is None:
                ev = self.queue.q.popleft()

                def wrapped(ev=ev):
                    try:
                        return ev()
                    finally:
                        self.emit("after_event", None)

                return wrapped
            self.complete(pick)


def quiet_logs() -> None:
    logging.getLogger("redun").setLevel(logging.CRITICAL)


def new_scheduler(backend=None, limits: Optional[dict] = None, config_dict: Optional[dict] = None,
                  context: Optional[dict] = None):
    """A Scheduler on a fresh in-memory backend (or the given one), logging silenced."""
    from redun import Scheduler
    from redun.config import Config

    quiet_logs()
    cd = dict(config_dict or {})
    if limits:
        cd["limits"] = {k: str(v) for k, v in limits.items()}
    if context is not None:
        import json

        cd.setdefault("scheduler", {})["context"] = json.dumps(context).replace("$", "$$")
    if backend is None:
        from vf.lab import dbx

        backend = dbx.fresh_backend()
    sched = Scheduler(config=Config(config_dict=cd) if cd else None, backend=backend)
    return sched


def dfs_schedules(run: Callable[[list[int]], Ctl], cap: int):
    """Stateless DFS over decision sequences. `run(prefix)` must execute the scenario with
    Ctl(decisions=prefix, exact=True) and return the Ctl. Yields (prefix, ctl); stops after cap."""
    stack: list[list[int]] = [[]]
    n = 0
    while stack and n < cap:
        prefix = stack.pop()
        ctl = run(prefix)
        n += 1
        yield prefix, ctl
        b, c = ctl.branching, ctl.choices
        for i in range(len(b) - 1, len(prefix) - 1, -1):
            for alt in range(b[i] - 1, 0, -1):
                if alt != c[i]:
                    stack.append(c[:i] + [alt])
    return
