"""L1 — value grammar: JSON-able specs, build(spec) -> live value, Hypothesis strategies, typed equality."""
from __future__ import annotations

import dataclasses
import math

from hypothesis import strategies as st

import vf_types as T

# ---------------------------------------------------------------- strategies over specs
_text = st.text(st.characters(exclude_categories=["Cs"]), max_size=5)
_small_text = st.sampled_from(["", "a", "b", "ab", "dd", "eee", "k", "é"])

leaf_specs = st.one_of(
    st.integers(-3, 3).map(lambda n: ["int", n]),
    st.integers(-(10**20), 10**20).map(lambda n: ["int", n]),
    st.floats(allow_nan=False, allow_infinity=False, width=32).map(lambda x: ["float", x]),
    _text.map(lambda s: ["str", s]),
    _small_text.map(lambda s: ["str", s]),
    st.binary(max_size=4).map(lambda b: ["bytes", b.hex()]),
    st.just(["none"]),
    st.booleans().map(lambda b: ["bool", b]),
)

hashable_leaf_specs = st.one_of(
    st.integers(-3, 3).map(lambda n: ["int", n]),
    _small_text.map(lambda s: ["str", s]),
    _text.map(lambda s: ["str", s]),
    st.binary(max_size=3).map(lambda b: ["bytes", b.hex()]),
)


def _homog_sets(kind_name):
    # homogeneous element kinds (ints or strs or bytes) so sorted() works inside redun's Set.get_hash
    return st.one_of(
        st.lists(st.integers(-5, 5), max_size=4, unique=True).map(lambda xs: [kind_name, [["int", x] for x in xs]]),
        st.lists(_small_text, max_size=5, unique=True).map(lambda xs: [kind_name, [["str", x] for x in xs]]),
        st.lists(st.binary(max_size=2), max_size=3, unique=True).map(lambda xs: [kind_name, [["bytes", x.hex()] for x in xs]]),
    )


def container_specs(children, sets=True, dataclasses_=True, subclasses=False):
    opts = [
        st.lists(children, max_size=3).map(lambda xs: ["list", xs]),
        st.lists(children, max_size=3).map(lambda xs: ["tuple", xs]),
        st.lists(st.tuples(hashable_leaf_specs, children), max_size=3,
                 unique_by=lambda kv: repr(kv[0])).map(lambda kvs: ["dict", [list(kv) for kv in kvs]]),
        st.tuples(children, children).map(lambda xy: ["nt", "Point", list(xy)]),
        st.tuples(children, children, children).map(lambda xyz: ["nt", "Triple", list(xyz)]),
    ]
    if sets:
        opts += [_homog_sets("set"), _homog_sets("frozenset")]
    if dataclasses_:
        opts += [
            st.tuples(children, children).map(lambda ab: ["dc", "Rec", {"a": ab[0], "b": ab[1]}]),
            st.tuples(children, children).map(lambda ab: ["dc", "FrozenRec", {"a": ab[0], "b": ab[1]}]),
            st.tuples(children, children).map(lambda ac: ["dc", "RecNI", {"a": ac[0], "c": ac[1]}]),
            st.tuples(children, children).map(lambda ac: ["dc", "FrozenNI", {"a": ac[0], "c": ac[1]}]),
        ]
    if subclasses:
        opts += [st.lists(leaf_specs, max_size=2).map(lambda xs: ["sub", "MyList", xs])]
    return st.one_of(opts)


def value_specs(max_leaves=10, **kw):
    return st.recursive(leaf_specs, lambda c: container_specs(c, **kw), max_leaves=max_leaves)


from vf_types import build  # noqa: E402,F401  (kept hypothesis-free for process workers)


def spec_depth(spec) -> int:
    k = spec[0]
    if k in ("list", "tuple", "set", "frozenset"):
        return 1 + max((spec_depth(s) for s in spec[1]), default=0)
    if k == "dict":
        return 1 + max((max(spec_depth(a), spec_depth(b)) for a, b in spec[1]), default=0)
    if k == "nt":
        return 1 + max((spec_depth(s) for s in spec[2]), default=0)
    if k == "dc":
        return 1 + max((spec_depth(s) for s in spec[2].values()), default=0)
    return 0


def spec_kinds(spec, out=None) -> set:
    out = set() if out is None else out
    k = spec[0]
    out.add(k if k not in ("nt", "dc", "sub") else f"{k}:{spec[1]}")
    if k in ("list", "tuple", "set", "frozenset"):
        for s in spec[1]:
            spec_kinds(s, out)
    elif k == "dict":
        for a, b in spec[1]:
            spec_kinds(a, out)
            spec_kinds(b, out)
    elif k == "nt":
        for s in spec[2]:
            spec_kinds(s, out)
    elif k == "dc":
        for s in spec[2].values():
            spec_kinds(s, out)
    return out


# ---------------------------------------------------------------- typed equality
def deep_typed_equal(a, b) -> bool:
    """Equality that also compares types at every level (list != tuple, named tuple classes,
    dataclass classes, bool != int, str != bytes)."""
    if type(a) is not type(b):
        return False
    if isinstance(a, float):
        if math.isnan(a) and math.isnan(b):
            return True
        return a == b
    if isinstance(a, (list, tuple)):
        return len(a) == len(b) and all(deep_typed_equal(x, y) for x, y in zip(a, b))
    if isinstance(a, dict):
        if len(a) != len(b):
            return False
        for k, v in a.items():
            match = [k2 for k2 in b if deep_typed_equal(k, k2)]
            if not match or not deep_typed_equal(v, b[match[0]]):
                return False
        return True
    if isinstance(a, (set, frozenset)):
        if len(a) != len(b):
            return False
        return all(any(deep_typed_equal(x, y) for y in b) for x in a)
    if dataclasses.is_dataclass(a):
        return all(deep_typed_equal(getattr(a, f.name), getattr(b, f.name)) for f in dataclasses.fields(a))
    return a == b
