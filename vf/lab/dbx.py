"""L4 — database utilities: fast fresh file-backed SQLite backends (copied from a once-migrated
template), dumps, foreign-key checks."""
from __future__ import annotations

import atexit
import itertools
import os
import shutil
import tempfile
from typing import Optional

_state: dict = {}
_counter = itertools.count()


def _root() -> str:
    if "root" not in _state:
        # tmpfs when available: SQLite commits fsync, which dominates run time on disk
        base = "/dev/shm" if os.path.isdir("/dev/shm") and os.access("/dev/shm", os.W_OK) else None
        d = tempfile.mkdtemp(prefix="vf-db-", dir=base)
        _state["root"] = d
        atexit.register(shutil.rmtree, d, True)
    return _state["root"]


def _template() -> str:
    if "template" not in _state:
        import logging

        from redun.backends.db import RedunBackendDb

        logging.getLogger("redun").setLevel(logging.CRITICAL)
        path = os.path.join(_root(), "template.db")
        b = RedunBackendDb(db_uri="sqlite:///" + path)
        b.load()
        close_backend(b)
        _state["template"] = path
    return _state["template"]


def new_db_path(name: Optional[str] = None) -> str:
    path = os.path.join(_root(), name or f"db{next(_counter)}.db")
    shutil.copyfile(_template(), path)
    return path


def open_backend(path: str, config: Optional[dict] = None):
    from redun.backends.db import RedunBackendDb
    from redun.config import create_config_section

    cfg = {"db_retries_backoff": "0", "db_retries_backoff_max": "0"}
    cfg.update(config or {})
    b = RedunBackendDb(db_uri="sqlite:///" + path, config=create_config_section(cfg))
    b.load()
    return b


def fresh_backend(config: Optional[dict] = None):
    """A new, empty, fully migrated backend on its own file."""
    return open_backend(new_db_path(), config)


def close_backend(b) -> None:
    """Close the session and dispose the engine (what process exit does to locks)."""
    try:
        if b.session is not None:
            b.session.close()
    finally:
        if b.engine is not None:
            b.engine.dispose()


def discard_backend(b) -> None:
    path = b.db_uri[len("sqlite:///"):] if b.db_uri.startswith("sqlite:///") else None
    close_backend(b)
    if path and os.path.exists(path) and path.startswith(_root()):
        for suffix in ("", "-journal", "-wal", "-shm"):
            try:
                os.remove(path + suffix)
            except FileNotFoundError:
                pass


def fk_check(b) -> list:
    """PRAGMA foreign_key_check rows (empty list = referentially consistent)."""
    from sqlalchemy import text

    with b.engine.connect() as conn:
        return [tuple(r) for r in conn.execute(text("PRAGMA foreign_key_check")).fetchall()]


# ---------------------------------------------------------------------------- faults
class Crash(BaseException):
    """Simulated process death at a backend write (BaseException: nothing in redun catches it)."""


class FaultySession:
    """Wraps session.commit of a backend: counts commits, labels each with the redun.backends.db
    frames on the stack, and injects one fault at commit number `at` (1-based):
      'before' — die before the commit reaches the database (pending changes are lost),
      'after'  — die right after it,
      'operr'  — raise one sqlalchemy OperationalError instead of committing (db_retry path).
    """

    def __init__(self, backend, at=None, kind=None):
        self.backend = backend
        self.at = at
        self.kind = kind
        self.count = 0
        self.sites: list = []
        self.fired = None
        self._orig = backend.session.commit
        backend.session.commit = self._commit

    def site(self) -> str:
        import sys

        names = []
        f = sys._getframe(2)
        while f is not None:
            fn = f.f_code.co_filename
            if fn.endswith("backends/db/__init__.py") and f.f_code.co_name not in ("wrapper", "wrapped", "_commit"):
                names.append(f.f_code.co_name)
            elif fn.endswith("redun/scheduler.py") and f.f_code.co_name.startswith(("_resolve", "_reject", "_exec_job", "_done_job", "run", "catch", "apply_tags", "set_cache")):
                names.append("S." + f.f_code.co_name)
                break
            f = f.f_back
        return "<".join(names) or "?"

    def _commit(self):
        self.count += 1
        s = self.site()
        nth = sum(1 for x in self.sites if x == s) + 1
        self.sites.append(s)
        if self.at is not None and self.count == self.at and self.fired is None:
            self.fired = f"{s}#{nth}"
            if self.kind == "before":
                raise Crash(self.fired)
            if self.kind == "after":
                self._orig()
                raise Crash(self.fired)
            if self.kind == "operr":
                from sqlalchemy.exc import OperationalError

                raise OperationalError("COMMIT", {}, Exception("injected transient failure"))
        return self._orig()

    def remove(self):
        try:
            self.backend.session.commit = self._orig
        except Exception:  # noqa: BLE001
            pass


class FaultyStatements:
    """Counts the SQL statements a backend executes *inside a db_retry-wrapped backend method* (the
    operations redun promises to retry) and makes statement number `at` (1-based) fail once with a
    sqlalchemy OperationalError before it reaches the database (a dropped connection / 'database
    is locked'). Statements executed outside any db_retry wrapper are neither counted nor failed:
    they are not 'retried operations'; connection-local PRAGMA statements are skipped too. `sites` labels each counted statement as
    <innermost backend method>:<SQL verb>."""

    def __init__(self, backend, at=None):
        from sqlalchemy import event

        self.backend = backend
        self.at = at
        self.count = 0
        self.sites: list = []
        self.fired = None
        self._event = event
        event.listen(backend.engine, "before_cursor_execute", self._before)
        self._on = True

    def _site(self):
        import sys

        f = sys._getframe(2)
        inner = None
        retried = False
        while f is not None:
            fn = f.f_code.co_filename
            if fn.endswith("backends/db/__init__.py"):
                if f.f_code.co_name == "wrapper" and "func" in f.f_locals and "_db_retries_attempt" in f.f_code.co_names:
                    retried = True
                elif inner is None and f.f_code.co_name not in ("wrapper", "wrapped"):
                    inner = f.f_code.co_name
            f = f.f_back
        return inner or "?", retried

    def _before(self, conn, cursor, statement, parameters, context, executemany):
        inner, retried = self._site()
        verb = statement.lstrip().split(None, 1)[0].upper() if statement.strip() else "?"
        if not retried or verb == "PRAGMA":
            # SQLite's connection-local PRAGMAs (defer_foreign_keys / foreign_keys) never touch the
            # database file and are not issued on other dialects: not a place where a transient
            # database error can occur
            return
        self.count += 1
        s = f"{inner}:{verb}"
        self.sites.append(s)
        if self.at is not None and self.count == self.at and self.fired is None:
            from sqlalchemy.exc import OperationalError

            self.fired = f"{s}#{sum(1 for x in self.sites if x == s)}"
            raise OperationalError(statement, parameters, Exception("injected transient failure"))

    def remove(self):
        if self._on:
            self._on = False
            try:
                self._event.remove(self.backend.engine, "before_cursor_execute", self._before)
            except Exception:  # noqa: BLE001
                pass


def reopen(backend):
    """Simulate process exit + restart: drop the session without committing, dispose the engine,
    open the file again."""
    path = backend.db_uri[len("sqlite:///"):]
    try:
        if backend.session is not None:
            backend.session.rollback()
    except Exception:  # noqa: BLE001
        pass
    close_backend(backend)
    return open_backend(path)


def dump(backend) -> dict:
    """Structural, comparable contents of the database (ids and timestamps normalised away)."""
    from sqlalchemy import text

    out = {}
    with backend.engine.connect() as conn:
        def rows(sql):
            return [tuple(r) for r in conn.execute(text(sql)).fetchall()]

        out["value"] = sorted(rows("select value_hash, type, format from value"))
        out["task"] = sorted(rows("select hash, name, namespace from task"))
        out["call_node"] = sorted(rows("select call_hash, task_hash, args_hash, value_hash from call_node"))
        out["call_edge"] = sorted(rows("select parent_id, child_id, call_order from call_edge"))
        out["argument"] = sorted((r[0], r[1], r[2], str(r[3]), str(r[4])) for r in rows(
            "select arg_hash, call_hash, value_hash, arg_position, arg_key from argument"))
        out["argument_result"] = sorted(rows("select arg_hash, result_call_hash from argument_result"))
        out["subtree"] = sorted(rows("select call_hash, task_hash from call_subtree_task"))
        out["evaluation"] = sorted(rows("select eval_hash, task_hash, args_hash, value_hash from evaluation"))
        out["subvalue"] = sorted(rows("select value_hash, parent_value_hash from subvalue"))
        out["job"] = sorted((str(r[0]), str(r[1]), str(r[2]), r[3] is not None, str(r[4])) for r in rows(
            "select j.task_hash, j.cached, j.call_hash, j.end_time, p.call_hash from job j left join job p on j.parent_id = p.id"))
        out["execution"] = [len(rows("select id from execution"))]
        out["tag"] = sorted((str(r[0]), str(r[1]), str(r[2]), str(r[3])) for r in rows(
            "select entity_type, key, value, is_current from tag"))
    return out


def dump_diff(a: dict, b: dict) -> list:
    diffs = []
    for k in sorted(set(a) | set(b)):
        if a.get(k) != b.get(k):
            sa, sb = a.get(k, []), b.get(k, [])
            only_a = [x for x in sa if x not in sb][:2]
            only_b = [x for x in sb if x not in sa][:2]
            diffs.append(f"{k}: {len(sa)} vs {len(sb)} rows; only-first {only_a}; only-second {only_b}")
    return diffs
