"""L4 — database utilities: fast fresh file-backed SQLite backends (copied from a once-migrated
template), dumps, foreign-key checks."""
from __future__ import annotations

import atexit
import itertools
import os
import shutil
import tempfile
from typing import Optional

_state: dict = {}
_counter = itertools.count()


def _root() -> str:
    if "root" not in _state:
        # tmpfs when available: SQLite commits fsync, which dominates run time on disk
        base = "/dev/shm" if os.path.isdir("/dev/shm") and os.access("/dev/shm", os.W_OK) else None
        d = tempfile.mkdtemp(prefix="vf-db-", dir=base)
        _state["root"] = d
        atexit.register(shutil.rmtree, d, True)
    return _state["root"]


def _template() -> str:
    if "template" not in _state:
        import logging

        from redun.backends.db import RedunBackendDb

        logging.getLogger("redun").setLevel(logging.CRITICAL)
        path = os.path.join(_root(), "template.db")
        b = RedunBackendDb(db_uri="sqlite:///" + path)
        b.load()
        close_backend(b)
        _state["template"] = path
    return _state["template"]


def new_db_path(name: Optional[str] = None) -> str:
    path = os.path.join(_root(), name or f"db{next(_counter)}.db")
    shutil.copyfile(_template(), path)
    return path


def open_backend(path: str, config: Optional[dict] = None):
    from redun.backends.db import RedunBackendDb
    from redun.config import create_config_section

    cfg = {"db_retries_backoff": "0", "db_retries_backoff_max": "0"}
    cfg.update(config or {})
    b = RedunBackendDb(db_uri="sqlite:///" + path, config=create_config_section(cfg))
    b.load()
    return b


def fresh_backend(config: Optional[dict] = None):
    """A new, empty, fully migrated backend on its own file."""
    return open_backend(new_db_path(), config)


def close_backend(b) -> None:
    """Close the session and dispose the engine (what process exit does to locks)."""
    try:
        if b.session is not None:
            b.session.close()
    finally:
        if b.engine is not None:
            b.engine.dispose()


def discard_backend(b) -> None:
    path = b.db_uri[len("sqlite:///"):] if b.db_uri.startswith("sqlite:///") else None
    close_backend(b)
    if path and os.path.exists(path) and path.startswith(_root()):
        for suffix in ("", "-journal", "-wal", "-shm"):
            try:
                os.remove(path + suffix)
            except FileNotFoundError:
                pass


def fk_check(b) -> list:
    """PRAGMA foreign_key_check rows (empty list = referentially consistent)."""
    from sqlalchemy import text

    with b.engine.connect() as conn:
        return [tuple(r) for r in conn.execute(text("PRAGMA foreign_key_check")).fetchall()]
