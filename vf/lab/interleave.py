"""L5 — deterministic thread interleaver.

Real Python threads run real code, but only ONE of them is ever runnable: every controlled thread
parks at each source LINE (or bytecode INSTRUCTION) of the *watched* code objects and at every
blocking operation of the proxied ``threading`` / ``time`` names; whoever parks takes the next
scheduling decision (it is the only thread running) and either continues itself or hands the baton
to the chosen thread through a per-thread semaphore. The harness thread that called ``Run.go``
just waits for the run to end.

* park points: ``sys.monitoring`` tool id 4 (not DEBUGGER_ID: redun looks at that one) with LINE or
  INSTRUCTION local events on the watched code objects; the callback runs in the thread that hit
  the event. In INSTRUCTION mode, instructions that only touch the frame's own stack/locals are not
  park points (parking there is equivalent to parking before the next shared access).
* proxies (``install(run, modules)`` sets ``module.threading`` / ``module.time``): ``Thread`` (starts
  parked, ``join``/``is_alive``/``ident`` answered from harness state), ``Lock``/``RLock`` (a thread
  waiting for a held lock is not runnable), ``Event`` (``wait(timeout)`` is a virtual-clock wait),
  ``time.time`` / ``time.sleep`` (virtual clock). Nothing else of threading/time is emulated;
  Condition/Semaphore/Timer raise HarnessError rather than block for real.
* schedule: default = keep running the current thread until it blocks or finishes, then the
  lowest-index runnable thread; if nothing is runnable the clock jumps to the earliest deadline.
  On top of that a list of preemptions ``[step, thread_index]``: at that step run that thread
  instead.  A thread in a *timed* wait (sleep / Event.wait(timeout)) is eligible for a preemption
  too: choosing it advances the clock to its deadline ("the timeout fired now") — the relative
  speed of a timer and another thread's progress is not determined by the program.
  ``Run(relative=True)`` reads a preemption as [n-th decision point, k-th alternative] instead
  (for generated schedules); ``run.effective`` is always the equivalent absolute schedule.
* one step = the chosen thread runs from its park point to its next one; ``run.trace`` holds
  (step, thread, event executed from, event parked at, state), ``run.choices`` the default and the
  eligible threads of every step.
* quiescence: no thread runnable and none in a timed wait (status ``done`` if all finished, else
  ``blocked``); hard caps on steps and virtual time (``step-cap`` / ``time-cap``).
* every run ends by aborting whatever is still parked (``Abort`` is a BaseException raised at the
  park point, one thread at a time) and waiting until every controlled thread has left its target;
  one that does not come back is a HarnessError. The OS threads underneath are pooled workers
  (thread creation costs milliseconds here); a worker in the pool is idle and runs nothing.

``explore`` enumerates all schedules with <= K preemptions statelessly (re-running the scenario per
schedule); ``schedules(...)`` is the Hypothesis strategy; ``assert_deterministic`` re-runs a schedule
and insists on identical traces.
"""
from __future__ import annotations

import atexit
import contextlib
import dis
import sys
import threading as _th
import time as _time
from typing import Any, Callable, Iterable, Iterator, Optional, Sequence

from vf.core import HarnessError

TOOL_ID = 4
HANG_S = 120.0      # a whole run must finish within this (real) time
JOIN_S = 20.0

CURRENT: Optional["Run"] = None
_MISSING = object()


class Abort(BaseException):
    """Raised inside a controlled thread to unwind it at the end of a run."""


# bytecodes that only touch the frame's own stack / locals: parking before them is equivalent to
# parking before the next non-local instruction, so they are not park points (partial-order
# reduction; keeps the instruction-level schedule space small).
_LOCAL_OPS = frozenset("""
    CACHE NOP RESUME POP_TOP PUSH_NULL COPY SWAP LOAD_FAST LOAD_FAST_CHECK LOAD_FAST_AND_CLEAR
    STORE_FAST DELETE_FAST LOAD_CONST RETURN_CONST RETURN_VALUE JUMP_FORWARD JUMP_BACKWARD
    JUMP_BACKWARD_NO_INTERRUPT POP_JUMP_IF_TRUE POP_JUMP_IF_FALSE POP_JUMP_IF_NONE
    POP_JUMP_IF_NOT_NONE KW_NAMES EXTENDED_ARG BUILD_LIST BUILD_TUPLE LIST_APPEND POP_EXCEPT
    PUSH_EXC_INFO RERAISE END_FOR COPY_FREE_VARS MAKE_CELL UNARY_NOT IS_OP BUILD_SLICE
    UNPACK_SEQUENCE BUILD_MAP BUILD_CONST_KEY_MAP BUILD_STRING FORMAT_VALUE LOAD_GLOBAL
""".split())


class _Worker:
    """A pooled real thread. Creating an OS thread per controlled thread per run costs
    milliseconds; workers are reused across runs. A worker is idle (blocked on its wake-up
    semaphore, running no code under test) whenever it is in the pool: a run only ends after every
    controlled thread has left its target and gone back to the pool."""

    def __init__(self):
        self.wake = _th.Semaphore(0)
        self.task: Optional[Callable[[], None]] = None
        self.thread = _th.Thread(target=self._loop, name="vf-il-worker", daemon=True)
        self.thread.start()

    def _loop(self) -> None:
        while True:
            self.wake.acquire()
            task, self.task = self.task, None
            if task is None:
                return
            task()


_pool: list = []
_pool_lock = _th.Lock()


def _get_worker() -> _Worker:
    with _pool_lock:
        if _pool:
            return _pool.pop()
    return _Worker()


def close_pool() -> None:
    with _pool_lock:
        ws, _pool[:] = list(_pool), []
    for w in ws:
        w.task = None
        w.wake.release()
    for w in ws:
        w.thread.join(JOIN_S)


atexit.register(close_pool)


class CThread:
    """Harness record of one controlled thread."""

    def __init__(self, run: "Run", idx: int, name: str, fn: Callable[[], None]):
        self.idx = idx
        self.name = name
        self.fn = fn
        self.go = _th.Semaphore(0)
        self.state = "run"          # run | sleep | event | lock | join | done
        self.deadline: Optional[float] = None
        self.obj: Any = None        # what it waits for
        self.preemptible = True     # timed wait may be fired early by a preemption
        self.pending: tuple = ("start",)   # where it is parked = what its next step executes from
        self.error: Optional[BaseException] = None
        self.born = 0
        self.exited = _th.Semaphore(0)      # released when the real thread left the target
        self.worker: Optional[_Worker] = None
        self.ident: Optional[int] = None

    def __repr__(self):
        return f"<T{self.idx} {self.name} {self.state} at {self.pending}>"


class Run:
    """One execution of a scenario under one schedule."""

    def __init__(self, schedule: Iterable[Sequence[int]] = (), max_steps: int = 5000,
                 t0: float = 1000.0, max_time: Optional[float] = None, relative: bool = False):
        # relative: a preemption [n, k] means "at the n-th decision point (step at which some
        # thread other than the default is eligible) take alternative k mod #alternatives" instead
        # of [step, thread index]; used by generated schedules so that nearly every drawn
        # preemption changes something. `effective` always holds the equivalent absolute schedule.
        self.relative = relative
        self.ndecisions = 0
        self.schedule = [[int(s), int(t)] for s, t in schedule]
        self.pre = {s: t for s, t in self.schedule}
        self.max_steps = max_steps
        self.now = float(t0)
        self.t0 = float(t0)
        self.max_time = max_time
        self.threads: list[CThread] = []
        self.by_ident: dict[int, CThread] = {}
        self.finished = _th.Semaphore(0)
        self.cur: Optional[CThread] = None
        self.fatal: Optional[BaseException] = None
        self._ev_from: tuple = ()
        self.step = 0
        self.trace: list[tuple] = []      # (step, tid, from_event, to_event, to_state)
        self.choices: list[tuple] = []    # per step: (default tid, eligible tids)
        self.effective: list[list[int]] = []   # preemptions that changed the choice
        self.status = "new"
        self.aborting = False

    # ------------------------------------------------------------------ thread side
    def me(self) -> Optional[CThread]:
        return self.by_ident.get(_th.get_ident())

    def _park(self, t: CThread) -> None:
        """End of t's step. The parking thread takes the scheduling decision itself (it is the only
        thread running), so continuing the same thread costs no context switch."""
        if self.aborting:
            raise Abort()
        self._end_step(t)
        nxt = self._decide()
        if nxt is t:
            return
        self._hand_over(nxt)
        t.go.acquire()
        if self.aborting:
            raise Abort()

    def _hand_over(self, nxt: Optional[CThread]) -> None:
        if nxt is None:
            self.finished.release()
        else:
            nxt.go.release()

    def point(self, t: CThread, ev: tuple) -> None:
        """A LINE / INSTRUCTION park point (thread stays runnable)."""
        t.pending = ev
        t.state = "run"
        self._park(t)

    def sleep(self, dt: float, preemptible: bool = True) -> None:
        t = self.me()
        if t is None:
            return
        t.pending = ("sleep",)
        if dt is None or dt <= 0:
            t.state = "run"
        else:
            t.state = "sleep"
            t.deadline = self.now + float(dt)
            t.preemptible = preemptible
        try:
            self._park(t)
        finally:
            t.state, t.deadline, t.preemptible = "run", None, True

    def wait_for(self, kind: str, obj: Any, timeout: Optional[float]) -> None:
        """Block (cooperatively) until the controller finds the condition true or the deadline
        passed; the caller re-checks the condition afterwards."""
        t = self.me()
        if t is None:
            raise HarnessError(f"blocking {kind} outside a controlled thread would block for real")
        t.pending = (kind,)
        t.state = kind
        t.obj = obj
        t.deadline = None if timeout is None else self.now + max(0.0, float(timeout))
        try:
            self._park(t)
        finally:
            t.state, t.deadline, t.obj = "run", None, None

    # ------------------------------------------------------------------ controller side
    def spawn(self, fn: Callable[[], None], name: str) -> CThread:
        t = CThread(self, len(self.threads), name, fn)
        t.born = self.step          # step during which it was started
        self.threads.append(t)
        w = t.worker = _get_worker()
        t.ident = w.thread.ident
        self.by_ident[t.ident] = t
        w.task = lambda: self._bootstrap(t)
        w.wake.release()
        return t

    def _bootstrap(self, t: CThread) -> None:
        t.go.acquire()
        try:
            if self.aborting:
                raise Abort()
            t.fn()
        except Abort:
            pass
        except BaseException as e:  # noqa: BLE001 - what threading.excepthook would have printed
            t.error = e
        finally:
            t.pending = ("end",)
            t.state = "done"
            nxt: Any = _MISSING
            if not self.aborting:
                self._end_step(t)
                nxt = self._decide()
            w, t.worker = t.worker, None
            with _pool_lock:
                _pool.append(w)
            t.exited.release()
            if nxt is not _MISSING:
                self._hand_over(nxt)

    def _runnable(self, t: CThread) -> bool:
        s = t.state
        if s == "run":
            return True
        if s == "done":
            return False
        if t.deadline is not None and self.now >= t.deadline:
            return True
        if s == "event":
            return t.obj._flag
        if s == "lock":
            return t.obj._owner is None
        if s == "join":
            return t.obj.state == "done"
        return False

    def go(self, mains: Sequence[Callable[[], None]], names: Optional[Sequence[str]] = None) -> "Run":
        global CURRENT
        if CURRENT is not None:
            raise HarnessError("nested interleaver runs")
        CURRENT = self
        # a woken thread otherwise waits up to the 5 ms default for the GIL of the thread that woke it
        old_si = sys.getswitchinterval()
        sys.setswitchinterval(1e-4)
        try:
            for i, fn in enumerate(mains):
                self.spawn(fn, names[i] if names else f"T{i}")
            self._hand_over(self._decide())
            if not self.finished.acquire(timeout=HANG_S):
                raise HarnessError(f"run did not finish within {HANG_S}s real time (real blocking "
                                   f"call in a controlled thread?) at step {self.step}: {self.threads}")
        finally:
            try:
                self._shutdown()
            finally:
                CURRENT = None
                sys.setswitchinterval(old_si)
        if self.fatal is not None:
            raise self.fatal
        return self

    def _end_step(self, t: CThread) -> None:
        self.trace.append((self.step, t.idx, self._ev_from, t.pending, t.state))
        self.step += 1

    def _decide(self) -> Optional[CThread]:
        """Choose the thread that runs the next step (None = the run is over)."""
        try:
            return self._decide1()
        except BaseException as e:  # noqa: BLE001 - must reach the controller thread
            self.fatal = e
            self.status = "fatal"
            return None

    def _decide1(self) -> Optional[CThread]:
        if self.step >= self.max_steps:
            self.status = "step-cap"
            return None
        runnable = [t for t in self.threads if self._runnable(t)]
        timed = [t for t in self.threads
                 if t.state != "done" and t.deadline is not None and t not in runnable]
        if not runnable and not timed:
            self.status = "done" if all(t.state == "done" for t in self.threads) else "blocked"
            return None
        cur = self.cur
        if cur is not None and cur in runnable:
            default = cur
        elif runnable:
            default = runnable[0]
        else:
            default = min(timed, key=lambda t: (t.deadline, t.idx))
        elig = {t.idx for t in runnable}
        elig.update(t.idx for t in timed if t.preemptible)
        elig.add(default.idx)
        chosen = default
        if self.relative:
            if len(elig) > 1:
                p = self.pre.get(self.ndecisions)
                self.ndecisions += 1
                if p is not None:
                    alts = sorted(elig - {default.idx})
                    chosen = self.threads[alts[p % len(alts)]]
        else:
            p = self.pre.get(self.step)
            if p is not None and p != default.idx and p in elig:
                chosen = self.threads[p]
        if chosen is not default:
            self.effective.append([self.step, chosen.idx])
        if chosen not in runnable:
            if self.max_time is not None and chosen.deadline > self.max_time:
                self.status = "time-cap"
                return None
            self.now = max(self.now, chosen.deadline)
        self.choices.append((default.idx, tuple(sorted(elig))))
        self._ev_from = chosen.pending
        self.cur = chosen
        return chosen

    def _shutdown(self) -> None:
        self.aborting = True
        leaked = []
        for t in list(self.threads):
            if t.state != "done":
                t.go.release()
            if not t.exited.acquire(timeout=JOIN_S):
                leaked.append(t)
        if leaked:
            raise HarnessError(f"controlled threads outlived the run: {leaked}")

    # ------------------------------------------------------------------ results
    def blocked(self) -> list[CThread]:
        return [t for t in self.threads if t.state != "done"]

    def positions(self) -> Iterator[tuple]:
        """Yield (trace entry, {tid: event where that thread was parked before this step})."""
        pos: dict[int, tuple] = {}
        for e in self.trace:
            step, tid, ev_from, ev_to, st = e
            pos.setdefault(tid, ev_from)
            yield e, pos
            pos[tid] = ev_to

    def signature(self) -> list:
        return [list(map(_plain, e)) for e in self.trace] + [self.status, round(self.now, 6)]


def _plain(x):
    return list(x) if isinstance(x, tuple) else x


# -------------------------------------------------------------------------------------- proxies
class HLock:
    def __init__(self, run: Run, reentrant: bool = False):
        self._run = run
        self._owner: Optional[int] = None    # real ident of the owner
        self._count = 0
        self._reentrant = reentrant

    def acquire(self, blocking: bool = True, timeout: float = -1) -> bool:
        me = _th.get_ident()
        if self._reentrant and self._owner == me:
            self._count += 1
            return True
        while self._owner is not None:
            if not blocking:
                return False
            if self._owner == me and not self._reentrant and self._run.me() is not None:
                # self-deadlock of a non-reentrant lock: blocks forever, like the real thing
                pass
            t0 = self._run.now
            self._run.wait_for("lock", self, None if timeout is None or timeout < 0 else timeout)
            if self._owner is not None and timeout is not None and timeout >= 0 \
                    and self._run.now >= t0 + timeout:
                return False
        self._owner = me
        self._count = 1
        return True

    def release(self) -> None:
        if self._owner is None:
            raise RuntimeError("release unlocked lock")
        if self._reentrant and self._owner != _th.get_ident():
            raise RuntimeError("cannot release un-acquired lock")
        self._count -= 1
        if self._count <= 0:
            self._owner = None
            self._count = 0

    def locked(self) -> bool:
        return self._owner is not None

    __enter__ = acquire

    def __exit__(self, *a) -> None:
        self.release()


class HEvent:
    def __init__(self, run: Run):
        self._run = run
        self._flag = False

    def is_set(self) -> bool:
        return self._flag

    isSet = is_set

    def set(self) -> None:
        self._flag = True

    def clear(self) -> None:
        self._flag = False

    def wait(self, timeout: Optional[float] = None) -> bool:
        if not self._flag and (timeout is None or timeout > 0):
            self._run.wait_for("event", self, timeout)
        return self._flag


class PThread:
    """Stands in for threading.Thread inside the module under test."""

    _run: Run = None  # type: ignore[assignment]  # bound in the per-run subclass
    _seq = 0

    def __init__(self, group=None, target=None, name=None, args=(), kwargs=None, *, daemon=None):
        self._target = target
        self._args = tuple(args)
        self._kwargs = dict(kwargs or {})
        self.name = name or "Thread"
        self.daemon = bool(daemon)
        self._ct: Optional[CThread] = None

    def run(self) -> None:
        if self._target is not None:
            self._target(*self._args, **self._kwargs)

    def start(self) -> None:
        if self._ct is not None:
            raise RuntimeError("threads can only be started once")
        self._ct = self._run.spawn(self.run, self.name)

    def is_alive(self) -> bool:
        return self._ct is not None and self._ct.state != "done"

    @property
    def ident(self) -> Optional[int]:
        return self._ct.ident if self._ct is not None else None

    def join(self, timeout: Optional[float] = None) -> None:
        if self._ct is None:
            raise RuntimeError("cannot join thread before it is started")
        if self._ct.ident == _th.get_ident():
            raise RuntimeError("cannot join current thread")
        if self._ct.state != "done":
            self._run.wait_for("join", self._ct, timeout)


class ThreadingProxy:
    _REAL_BLOCKING = {"Condition", "Semaphore", "BoundedSemaphore", "Timer", "Barrier"}

    def __init__(self, run: Run):
        self._run = run
        self.Thread = type("Thread", (PThread,), {"_run": run})
        self.get_ident = _th.get_ident

    def Lock(self):  # noqa: N802
        return HLock(self._run)

    def RLock(self):  # noqa: N802
        return HLock(self._run, reentrant=True)

    def Event(self):  # noqa: N802
        return HEvent(self._run)

    def __getattr__(self, name):
        if name in self._REAL_BLOCKING:
            raise HarnessError(f"threading.{name} is not proxied by the interleaver")
        return getattr(_th, name)


class TimeProxy:
    def __init__(self, run: Run):
        self._run = run

    def time(self) -> float:
        return self._run.now

    monotonic = perf_counter = time

    def sleep(self, dt: float) -> None:
        if self._run.me() is None:
            return
        self._run.sleep(dt)

    def __getattr__(self, name):
        return getattr(_time, name)


@contextlib.contextmanager
def install(run: Run, modules: Sequence[Any]):
    """Replace the module-level names `threading` and `time` of the modules under test."""
    tp, cp = ThreadingProxy(run), TimeProxy(run)
    saved = []
    try:
        for m in modules:
            for name, proxy in (("threading", tp), ("time", cp)):
                if name in m.__dict__:
                    saved.append((m, name, m.__dict__[name]))
                    setattr(m, name, proxy)
        yield tp, cp
    finally:
        for m, name, old in saved:
            setattr(m, name, old)


# -------------------------------------------------------------------------------------- monitoring
_mon = sys.monitoring
_watched: dict = {}          # code -> "line" | "instr"
_points: dict = {}           # code -> {offset: (opname, argval, line)} for instr mode
_tool_ready = False


def _on_line(code, line):
    run = CURRENT
    if run is None or run.aborting:
        return None
    t = run.by_ident.get(_th.get_ident())
    if t is None:
        return None
    run.point(t, ("L", code.co_name, line))
    return None


def _on_instr(code, off):
    pts = _points.get(code)
    if pts is None:
        return None
    if off not in pts:
        return _mon.DISABLE
    run = CURRENT
    if run is None or run.aborting:
        return None
    t = run.by_ident.get(_th.get_ident())
    if t is None:
        return None
    run.point(t, ("I", code.co_name, off))
    return None


def _ensure_tool() -> None:
    global _tool_ready
    if _tool_ready:
        return
    if _mon.get_tool(TOOL_ID) is not None:
        raise HarnessError(f"sys.monitoring tool id {TOOL_ID} is taken by {_mon.get_tool(TOOL_ID)}")
    _mon.use_tool_id(TOOL_ID, "vf-interleave")
    _mon.register_callback(TOOL_ID, _mon.events.LINE, _on_line)
    _mon.register_callback(TOOL_ID, _mon.events.INSTRUCTION, _on_instr)
    _tool_ready = True


def _code_of(f) -> Any:
    f = getattr(f, "__func__", f)
    f = getattr(f, "fget", f) if isinstance(f, property) else f
    while hasattr(f, "__wrapped__"):
        f = f.__wrapped__
    return f.__code__


def watch(funcs: Iterable[Any], instr: bool = False, skip_local: bool = True) -> None:
    """Make every line (or instruction) of these functions a park point for controlled threads."""
    _ensure_tool()
    for f in funcs:
        code = f if hasattr(f, "co_code") else _code_of(f)
        mode = "instr" if instr else "line"
        if _watched.get(code) == mode:
            continue
        if instr:
            pts = {}
            for ins in dis.get_instructions(code):
                if skip_local and ins.opname in _LOCAL_OPS:
                    continue
                pts[ins.offset] = (ins.opname, ins.argval, ins.positions.lineno if ins.positions else None)
            _points[code] = pts
            _mon.set_local_events(TOOL_ID, code, _mon.events.INSTRUCTION)
        else:
            _mon.set_local_events(TOOL_ID, code, _mon.events.LINE)
        _watched[code] = mode


def instr_info(func_or_code) -> dict:
    """{offset: (opname, argval, line)} of the park points of an instruction-watched function."""
    code = func_or_code if hasattr(func_or_code, "co_code") else _code_of(func_or_code)
    return _points.get(code, {})


def unwatch_all() -> None:
    global _tool_ready
    if not _tool_ready:
        return
    for code in list(_watched):
        _mon.set_local_events(TOOL_ID, code, 0)
    _watched.clear()
    _points.clear()
    _mon.register_callback(TOOL_ID, _mon.events.LINE, None)
    _mon.register_callback(TOOL_ID, _mon.events.INSTRUCTION, None)
    _mon.free_tool_id(TOOL_ID)
    _tool_ready = False
    close_pool()


# -------------------------------------------------------------------------------------- exploration
def children(run: Run, schedule: list) -> list:
    """All one-preemption extensions of `schedule` (whose run is `run`) that change a choice made
    after the schedule's last preemption."""
    last = schedule[-1][0] if schedule else -1
    out = []
    for s in range(last + 1, len(run.choices)):
        d, elig = run.choices[s]
        for t in elig:
            if t != d:
                out.append(schedule + [[s, t]])
    return out


def explore(run_fn: Callable[[list], Run], max_pre: int, roots: Optional[list] = None,
            visit: Optional[Callable[[list, Run], None]] = None) -> int:
    """Depth-first, stateless enumeration of every schedule with <= max_pre preemptions below the
    given roots (default: the empty schedule). run_fn(schedule) executes the scenario; visit is
    called once per schedule. Returns the number of schedules run."""
    stack = [list(r) for r in (roots if roots is not None else [[]])]
    stack.reverse()
    n = 0
    while stack:
        sch = stack.pop()
        run = run_fn(sch)
        n += 1
        if visit is not None:
            visit(sch, run)
        if len(sch) < max_pre:
            kids = children(run, sch)
            kids.reverse()
            stack.extend(kids)
    return n


def schedules(max_pre: int, horizon: int, nthreads: int, min_pre: int = 0):
    """Hypothesis strategy: min_pre..max_pre preemptions [step, thread] with distinct steps (for
    Run(relative=True): [decision point, alternative])."""
    from hypothesis import strategies as st

    return st.lists(
        st.tuples(st.integers(0, max(0, horizon - 1)), st.integers(0, max(0, nthreads - 1))),
        min_size=min_pre, max_size=max_pre, unique_by=lambda p: p[0],
    ).map(lambda ps: [list(p) for p in sorted(ps)])


def assert_deterministic(run_fn: Callable[[list], Run], schedule: list, times: int = 2) -> Run:
    """Re-run the same schedule and insist on identical traces (flakiness = harness bug)."""
    first = run_fn(schedule)
    sig = first.signature()
    for _ in range(times - 1):
        again = run_fn(schedule)
        if again.signature() != sig:
            a, b = sig, again.signature()
            k = next((i for i, (x, y) in enumerate(zip(a, b)) if x != y), min(len(a), len(b)))
            raise HarnessError(f"interleaver is not deterministic for schedule {schedule}: traces "
                               f"diverge at entry {k}: {a[k:k+1]} vs {b[k:k+1]}")
    return first
