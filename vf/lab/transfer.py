"""Record transfer between repositories, done exactly as the CLI does it (redun push/pull use
RedunClient._sync_records; redun export/import go through JSON lines)."""
from __future__ import annotations

import json


def root_ids_all(backend) -> list:
    from redun.backends.db import Execution, Job

    rows = (backend.session.query(Execution.id).join(Job, Execution.job_id == Job.id)
            .order_by(Job.start_time.desc()).all())
    return [r[0] for r in rows]


def sync(src, dst, root_ids=None) -> int:
    """redun push / pull."""
    from redun.cli import RedunClient

    return RedunClient()._sync_records(src, dst, root_ids)


def export_lines(src, root_ids=None) -> list:
    """redun export: JSON lines."""
    if not root_ids:
        root_ids = root_ids_all(src)
    record_ids = src.iter_record_ids(root_ids)
    return [json.dumps(rec) for rec in src.get_records(record_ids)]


def import_lines(dst, lines) -> int:
    """redun import."""
    return dst.put_records(json.loads(line) for line in lines)
