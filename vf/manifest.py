"""Regenerate MANIFEST.json from the property modules (python -m vf.manifest)."""
from __future__ import annotations

import importlib
import json
import os
import pkgutil

from vf.core import VERIF_DIR

# Properties whose check is finished and quiet on the unchanged tree (maintained by hand).
CLAIMED = ["C01", "C02", "C03", "C04", "C22", "C23", "C28", "C33", "C38", "C05", "C26", "C27", "C06", "C07", "C10", "C11", "C12", "C16", "C17", "C21", "C29", "C32", "C37", "C20", "C24", "C25", "C30", "C31", "C36", "C08", "C09", "C13", "C14", "C15", "C18", "C19", "C34", "C35"]
NOT_APPLICABLE: dict[str, str] = {}
PENDING_REASON = "no check registered in this revision (generated-input harness for it is not built yet)"


def main() -> None:
    import vf.props as props

    ids = []
    with open(os.path.join(VERIF_DIR, "properties.jsonl")) as f:
        for line in f:
            if line.strip():
                ids.append(json.loads(line)["id"])
    checks = []
    have = set()
    for m in sorted(pkgutil.iter_modules(props.__path__), key=lambda m: m.name):
        if m.name.upper() not in CLAIMED:
            continue
        mod = importlib.import_module(f"vf.props.{m.name}")
        if m.name.upper() not in CLAIMED:
            continue
        if not hasattr(mod, "ID") or getattr(mod, "DISABLED", False):
            continue
        have.add(mod.ID)
        meta = getattr(mod, "MANIFEST", {})
        checks.append({
            "property_id": mod.ID,
            "quick_cmd": f"./check {mod.ID} --tier quick",
            "thorough_cmd": f"./check {mod.ID} --tier thorough",
            "evidence_file": f"/verif/evidence/{mod.ID}.json",
            "replay_cmd_template": f"./check {mod.ID} --replay {{path}}",
            "engine": "vf",
            "level_claimed": {
                "category": getattr(mod, "LEVEL", "exploration"),
                "text": meta.get("text", mod.RULE),
                "design_ref": f"DESIGN.md section 4, {mod.ID}",
            },
            "level_note": meta.get("note", "; ".join(getattr(mod, "ASSUMPTIONS", [])) or "Hypothesis generators and the reference oracle in the property module"),
            "technique": meta.get("technique", "property-based testing (Hypothesis) against an explicit oracle"),
        })
    na = []
    for pid in ids:
        if pid not in have:
            na.append({"property_id": pid, "reason": NOT_APPLICABLE.get(pid, PENDING_REASON)})
    manifest = {
        "version": 1,
        "setup_cmd": "./setup.sh",
        "hooks": {
            "guard": "REDUN_VERIF",
            "enable": "checks export REDUN_VERIF=1 (./check); no hook code is currently needed in /repo",
            "baseline_off_cmd": "cd /repo && env -u REDUN_VERIF /venv/bin/python -m pytest -ra -q -p no:cacheprovider --timeout=900 --continue-on-collection-errors",
            "source_commits": [],
            "add_only": True,
        },
        "engines": [{
            "name": "vf",
            "path": "/verif/vf",
            "serves_properties": sorted(have),
            "kind_free_text": "Hypothesis property tests / rule-based state machines / bounded enumeration of schedules and fault points, with atheris campaigns for byte-level properties",
        }],
        "checks": checks,
        "not_applicable": na,
        "notes": "Every check: ./check <ID> --tier quick|thorough ; VERIF_SEED selects the seed; exit 0/1/2 = held / violation / harness error.",
    }
    with open(os.path.join(VERIF_DIR, "MANIFEST.json"), "w") as f:
        json.dump(manifest, f, indent=1)
    print(f"MANIFEST.json: {len(checks)} checks, {len(na)} not claimed")


if __name__ == "__main__":
    main()
