"""CLI: python -m vf.run <ID> [--tier quick|thorough] [--seed N] [--replay FILE] [--shard i --nshards n]

Exit codes: 0 property held on everything explored (known findings are reported as
KNOWN-FINDING lines), 1 violation (a VIOLATION line was printed), 2 harness error.
"""
from __future__ import annotations

import argparse
import importlib
import json
import os
import subprocess
import sys
import tempfile
import time
import traceback

from vf.core import VERIF_DIR, Ctx, HarnessError, StopCheck, Violation, jsonable, unjson


def load_module(pid: str):
    return importlib.import_module(f"vf.props.{pid.lower()}")


def write_evidence(mod, ctx: Ctx, wall: float, merged: dict | None = None) -> None:
    if os.environ.get("VERIF_NO_EVIDENCE"):
        return
    os.makedirs(os.path.join(VERIF_DIR, "evidence"), exist_ok=True)
    m = merged or {
        "evaluations": ctx.evaluations,
        "nt": sorted(ctx.nt_digests),
        "labels": dict(ctx.labels),
        "samples": ctx.samples,
        "known_hits": dict(ctx.known_hits),
        "extra": ctx.coverage_extra,
        "violations": ctx.violations,
        "notes": ctx.notes,
    }
    coverage = {
        "evaluations": m["evaluations"],
        "distinct_nontrivial": len(set(m["nt"])),
        "rule": mod.RULE,
        "samples": m["samples"][:8],
        "classes": dict(sorted(m["labels"].items())),
        "known_finding_hits": m["known_hits"],
    }
    coverage.update(m.get("extra") or {})
    if m.get("notes"):
        coverage["explanation"] = " ".join(m["notes"])
    ev = {
        "property_id": mod.ID,
        "tier": ctx.tier,
        "seed": ctx.seed,
        "level": getattr(mod, "LEVEL", "exploration"),
        "coverage": coverage,
        "assumptions": list(getattr(mod, "ASSUMPTIONS", [])),
        "wall_s": round(wall, 2),
        "violations": m["violations"],
    }
    path = os.path.join(VERIF_DIR, "evidence", f"{mod.ID}.json")
    with open(path, "w") as f:
        json.dump(ev, f, indent=1, sort_keys=True, default=repr)


def known_finding_pass(mod, ctx: Ctx) -> bool:
    """Replay the committed case of every listed finding. Open ones print KNOWN-FINDING when
    they still reproduce; fixed ones must pass (a returning defect is a VIOLATION).
    Returns False if a violation was reported."""
    ok = True
    for f in ctx.findings:
        if "case" not in f:
            continue
        case = unjson(f["case"])
        try:
            mod.replay(ctx, case)
            if f["status"] == "open":
                ctx.notes.append(f"known finding {f['key']} did not reproduce from its committed case.")
        except Violation as v:
            if f["status"] == "open" and v.key == f["key"]:
                ctx.known_hits[f["key"]] += 1
            else:
                if v.case is None:
                    v.case = case
                ctx.report(v)
                ok = False
    return ok


def print_known(ctx: Ctx, hits: dict) -> None:
    for f in ctx.findings:
        if f["status"] == "open" and hits.get(f["key"], 0) > 0:
            print(f"KNOWN-FINDING: property={ctx.prop_id} {f['key']}: {f['what']}", flush=True)


def run_single(mod, args) -> int:
    ctx = Ctx(mod.ID, args.tier, args.seed, args.shard, args.nshards)
    t0 = time.time()
    rc = 0
    try:
        if args.shard is None or args.shard == 0:
            if not known_finding_pass(mod, ctx):
                rc = 1
        if rc == 0:
            mod.check(ctx)
    except StopCheck:
        rc = 1
    except Violation as v:
        if not ctx.absorb(v):
            ctx.report(v)
            rc = 1
    except HarnessError as e:
        print(f"HARNESS-ERROR {mod.ID}: {e}", flush=True)
        rc = 2
    except BaseException:  # noqa: BLE001
        traceback.print_exc()
        print(f"HARNESS-ERROR {mod.ID}: unexpected exception (see traceback)", flush=True)
        rc = 2
    finally:
        ctx.cleanup()
    wall = time.time() - t0
    if args.out:
        with open(args.out, "w") as f:
            json.dump({
                "evaluations": ctx.evaluations, "nt": sorted(ctx.nt_digests),
                "labels": dict(ctx.labels), "samples": ctx.samples,
                "known_hits": dict(ctx.known_hits), "extra": ctx.coverage_extra,
                "violations": ctx.violations, "notes": ctx.notes, "rc": rc,
            }, f, default=repr)
    else:
        if rc != 2:
            write_evidence(mod, ctx, wall)
        print_known(ctx, ctx.known_hits)
        print(f"{mod.ID} {args.tier} seed={args.seed}: evaluations={ctx.evaluations} "
              f"distinct_nontrivial={len(ctx.nt_digests)} violations={ctx.violations} "
              f"wall={wall:.1f}s rc={rc}", flush=True)
    return rc


def run_sharded(mod, args, nshards: int) -> int:
    t0 = time.time()
    tmp = tempfile.mkdtemp(prefix="vf-shards-")
    procs = []
    for i in range(nshards):
        out = os.path.join(tmp, f"s{i}.json")
        cmd = [sys.executable, "-m", "vf.run", mod.ID, "--tier", args.tier, "--seed", str(args.seed),
               "--shard", str(i), "--nshards", str(nshards), "--out", out]
        procs.append((subprocess.Popen(cmd, cwd=VERIF_DIR), out))
    rc = 0
    merged = {"evaluations": 0, "nt": set(), "labels": {}, "samples": [], "known_hits": {},
              "extra": {}, "violations": 0, "notes": []}
    for p, out in procs:
        prc = p.wait()
        if prc == 1:
            rc = 1 if rc != 2 else 2
        elif prc != 0:
            rc = 2
        if os.path.exists(out):
            with open(out) as f:
                part = json.load(f)
            merged["evaluations"] += part["evaluations"]
            merged["nt"].update(part["nt"])
            for k, v in part["labels"].items():
                merged["labels"][k] = merged["labels"].get(k, 0) + v
            if len(merged["samples"]) < 8:
                merged["samples"].extend(part["samples"][:2])
            for k, v in part["known_hits"].items():
                merged["known_hits"][k] = merged["known_hits"].get(k, 0) + v
            for k, v in (part.get("extra") or {}).items():
                if isinstance(v, int) and not isinstance(v, bool):
                    merged["extra"][k] = merged["extra"].get(k, 0) + v
                else:
                    merged["extra"].setdefault(k, v)
            merged["violations"] += part["violations"]
            for nline in part["notes"]:
                if nline not in merged["notes"]:
                    merged["notes"].append(nline)
    import shutil

    shutil.rmtree(tmp, ignore_errors=True)
    merged["nt"] = sorted(merged["nt"])
    ctx = Ctx(mod.ID, args.tier, args.seed, None, nshards)
    wall = time.time() - t0
    if rc != 2:
        write_evidence(mod, ctx, wall, merged)
    print_known(ctx, merged["known_hits"])
    print(f"{mod.ID} {args.tier} seed={args.seed} shards={nshards}: evaluations={merged['evaluations']} "
          f"distinct_nontrivial={len(merged['nt'])} violations={merged['violations']} "
          f"wall={wall:.1f}s rc={rc}", flush=True)
    return rc


def run_replay(mod, args) -> int:
    with open(args.replay) as f:
        body = json.load(f)
    case = unjson(body["case"]) if isinstance(body, dict) and "case" in body else unjson(body)
    ctx = Ctx(mod.ID, args.tier, args.seed, replay_mode=True)
    try:
        mod.replay(ctx, case)
    except Violation as v:
        print(f"  violation key={v.key}\n  {v.message[:1000]}")
        print(f"VIOLATION property={mod.ID} replay={os.path.abspath(args.replay)}")
        return 1
    except BaseException:  # noqa: BLE001
        traceback.print_exc()
        return 2
    finally:
        ctx.cleanup()
    print(f"replay passed: {args.replay}")
    return 0


def main(argv=None) -> int:
    ap = argparse.ArgumentParser()
    ap.add_argument("prop")
    ap.add_argument("--tier", default=os.environ.get("VERIF_TIER", "quick"), choices=["quick", "thorough"])
    ap.add_argument("--seed", type=int, default=int(os.environ.get("VERIF_SEED", "1") or 1))
    ap.add_argument("--replay")
    ap.add_argument("--shard", type=int)
    ap.add_argument("--nshards", type=int, default=1)
    ap.add_argument("--out")
    args = ap.parse_args(argv)
    try:
        mod = load_module(args.prop)
    except Exception:  # noqa: BLE001
        traceback.print_exc()
        return 2
    if args.replay:
        return run_replay(mod, args)
    nshards = getattr(mod, "SHARDS", 16)
    if args.tier == "thorough" and args.shard is None and nshards > 1:
        return run_sharded(mod, args, nshards)
    return run_single(mod, args)


if __name__ == "__main__":
    sys.exit(main())
