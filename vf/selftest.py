"""Mutation sensitivity: python -m vf.selftest <ID> [name-substring] [--tier quick] [--jobs N]

Reads mutants/<ID>.json — a list of {name, file, old, new} textual replacements (file relative to
the repository root) — and/or seeded/<ID>*/patch.diff. For each, copies the repository's redun/
package to a scratch directory outside /repo and /verif, applies the change, runs ./check <ID>
with VERIF_REPO pointing at the copy, expects exit 1 + a VIOLATION line, and removes the copy.
Not a registered check; prints a table.
"""
from __future__ import annotations

import concurrent.futures
import glob
import json
import os
import shutil
import subprocess
import sys
import tempfile
import time

from vf.core import VERIF_DIR

REPO = "/repo"


def make_copy() -> str:
    d = tempfile.mkdtemp(prefix="vf-mut-")
    shutil.copytree(os.path.join(REPO, "redun"), os.path.join(d, "redun"),
                    ignore=shutil.ignore_patterns("__pycache__", "tests"))
    # seeded patches may touch tests; keep an empty tests package out. docs are needed by nothing.
    return d


def apply_replace(d: str, m: dict) -> None:
    path = os.path.join(d, m["file"])
    with open(path) as f:
        src = f.read()
    if m["old"] not in src:
        raise RuntimeError(f"mutant {m['name']}: pattern not found in {m['file']}")
    src = src.replace(m["old"], m["new"], m.get("count", 1))
    with open(path, "w") as f:
        f.write(src)


def apply_patch(d: str, patch: str) -> None:
    p = subprocess.run(["patch", "-p1", "-s", "-f", "-i", patch], cwd=d, capture_output=True, text=True)
    if p.returncode != 0:
        # patches may include test files that are not copied; tolerate rejects there only
        if "redun/tests" not in p.stdout + p.stderr:
            raise RuntimeError(f"patch failed: {p.stdout} {p.stderr}")


def run_one(pid: str, name: str, kind: str, payload, tier: str, seed: int) -> tuple:
    d = make_copy()
    t0 = time.time()
    try:
        try:
            if kind == "replace":
                for m in payload if isinstance(payload, list) else [payload]:
                    apply_replace(d, m)
            else:
                apply_patch(d, payload)
        except RuntimeError as e:
            return (name, 3, False, [], round(time.time() - t0, 1), f"cannot apply: {e}")
        env = dict(os.environ, VERIF_REPO=d, VERIF_SEED=str(seed))
        env["VERIF_NO_EVIDENCE"] = "1"
        p = subprocess.run([os.path.join(VERIF_DIR, "check"), pid, "--tier", tier], env=env,
                           capture_output=True, text=True, timeout=3600)
        out = p.stdout + p.stderr
        vio = [l for l in out.splitlines() if l.startswith("VIOLATION")]
        keyl = [l.strip() for l in out.splitlines() if l.strip().startswith("violation key=")]
        # remove replay files produced by mutant runs
        for l in vio:
            rp = l.split("replay=")[-1].strip()
            if os.path.exists(rp):
                os.remove(rp)
        return (name, p.returncode, bool(vio), keyl[:1], round(time.time() - t0, 1), out[-1500:] if p.returncode not in (0, 1) else "")
    finally:
        shutil.rmtree(d, ignore_errors=True)


def main() -> int:
    args = [a for a in sys.argv[1:] if not a.startswith("--")]
    opts = {a.split("=")[0]: (a.split("=") + ["1"])[1] for a in sys.argv[1:] if a.startswith("--")}
    pid = args[0]
    filt = args[1] if len(args) > 1 else ""
    tier = opts.get("--tier", "quick")
    seed = int(opts.get("--seed", "1"))
    jobs = int(opts.get("--jobs", "8"))
    work = []
    mj = os.path.join(VERIF_DIR, "mutants", f"{pid}.json")
    if os.path.exists(mj):
        for m in json.load(open(mj)):
            if filt in m["name"]:
                work.append((m["name"] + (f" [{m['tier']}]" if m.get("tier") else ""), "replace", m.get("edits", m), m.get("tier")))
    for pd in sorted(glob.glob(os.path.join(VERIF_DIR, "seeded", f"{pid}*", "patch.diff"))):
        name = "seeded:" + os.path.basename(os.path.dirname(pd))
        if filt in name:
            work.append((name, "patch", pd, None))
    bad = 0
    with concurrent.futures.ThreadPoolExecutor(jobs) as ex:
        futs = [ex.submit(run_one, pid, n, k, p, t or tier, seed) for n, k, p, t in work]
        for f in futs:
            name, rc, vio, keyl, dt, tail = f.result()
            status = "CAUGHT" if rc == 1 and vio else ("MISSED" if rc == 0 else f"ERROR rc={rc}")
            if status != "CAUGHT":
                bad += 1
            print(f"{pid} {name:45s} {status:8s} {dt:6.1f}s {keyl[0] if keyl else ''}")
            if tail:
                print(tail)
    return 1 if bad else 0


if __name__ == "__main__":
    sys.exit(main())
