"""Shared context for property checks: seeds, tiers, counters, samples, violation plumbing."""
from __future__ import annotations

import collections
import contextlib
import hashlib
import json
import os
import shutil
import sys
import tempfile
import traceback
from typing import Any, Callable, Iterable, Optional

VERIF_DIR = os.path.dirname(os.path.dirname(os.path.abspath(__file__)))
REPO = os.environ.get("VERIF_REPO", "/repo")
REPO_REDUN = os.path.join(os.path.realpath(REPO), "redun") + os.sep


class Violation(Exception):
    """An oracle failed on `case`. `key` identifies the failure class (see DESIGN 4c)."""

    def __init__(self, key: str, message: str, case: Any = None):
        super().__init__(f"{key}: {message}")
        self.key = key
        self.message = message
        self.case = case


class HarnessError(Exception):
    """The machinery (not the code under test) is broken: exit 2, never a VIOLATION."""


class StopCheck(Exception):
    """Raised after a violation was reported, to unwind the check."""


# --------------------------------------------------------------------------------------
# JSON helpers: cases must be printable / replayable.


def jsonable(x: Any) -> Any:
    if isinstance(x, (str, int, float, bool)) or x is None:
        return x
    if isinstance(x, bytes):
        return {"$b": x.hex()}
    if isinstance(x, tuple):
        return {"$t": [jsonable(i) for i in x]}
    if isinstance(x, list):
        return [jsonable(i) for i in x]
    if isinstance(x, (set, frozenset)):
        items = [jsonable(i) for i in x]
        items.sort(key=lambda i: json.dumps(i, sort_keys=True))
        return {"$s" if isinstance(x, set) else "$fs": items}
    if isinstance(x, dict):
        if all(isinstance(k, str) and not k.startswith("$") for k in x):
            return {k: jsonable(v) for k, v in x.items()}
        return {"$d": [[jsonable(k), jsonable(v)] for k, v in x.items()]}
    return {"$repr": repr(x)}


def unjson(x: Any) -> Any:
    if isinstance(x, list):
        return [unjson(i) for i in x]
    if isinstance(x, dict):
        if len(x) == 1:
            ((k, v),) = x.items()
            if k == "$b":
                return bytes.fromhex(v)
            if k == "$t":
                return tuple(unjson(i) for i in v)
            if k == "$s":
                return set(unjson(i) for i in v)
            if k == "$fs":
                return frozenset(unjson(i) for i in v)
            if k == "$d":
                return {unjson(a): unjson(b) for a, b in v}
        return {k: unjson(v) for k, v in x.items()}
    return x


def canon(case: Any) -> str:
    return json.dumps(jsonable(case), sort_keys=True, ensure_ascii=True, default=repr)


def digest(case: Any) -> str:
    return hashlib.sha1(canon(case).encode()).hexdigest()


def trim(obj: Any, limit: int = 1500) -> Any:
    s = canon(obj)
    if len(s) <= limit:
        return json.loads(s)
    return {"$truncated": s[:limit]}


# --------------------------------------------------------------------------------------


def redun_frame(exc: BaseException) -> Optional[str]:
    """Innermost traceback frame inside the repository's redun package, as 'file.py:func'."""
    found = None
    tb = exc.__traceback__
    while tb is not None:
        fn = os.path.realpath(tb.tb_frame.f_code.co_filename)
        if fn.startswith(REPO_REDUN):
            rel = fn[len(REPO_REDUN):]
            found = f"{rel}:{tb.tb_frame.f_code.co_name}"
        tb = tb.tb_next
    return found


def load_findings() -> list[dict]:
    path = os.path.join(VERIF_DIR, "known_findings.json")
    if not os.path.exists(path):
        return []
    with open(path) as f:
        return json.load(f)["findings"]


class Ctx:
    def __init__(self, prop_id: str, tier: str, seed: int, shard: Optional[int] = None,
                 nshards: int = 1, replay_mode: bool = False):
        self.prop_id = prop_id
        self.tier = tier
        self.seed = seed
        self.shard = shard
        self.nshards = nshards
        self.replay_mode = replay_mode
        self.evaluations = 0
        self.nt_digests: set[str] = set()
        self.labels: collections.Counter = collections.Counter()
        self.samples: list = []
        self._nt_seen = 0
        self.known_hits: collections.Counter = collections.Counter()
        self.coverage_extra: dict = {}
        self.violations = 0
        self.notes: list[str] = []
        self._given_calls = 0
        self._scratch: Optional[str] = None
        self.findings = [f for f in load_findings() if f["property"] == prop_id]
        self.open_keys = {f["key"] for f in self.findings if f["status"] == "open"}

    # ---------------------------------------------------------------- sizing
    @property
    def thorough(self) -> bool:
        return self.tier == "thorough"

    def n(self, quick: int, thorough: int) -> int:
        """Case count for this process: `thorough` is the total over all shards."""
        if self.tier == "quick":
            return quick
        return max(1, thorough // max(1, self.nshards))

    def pick(self, quick: Any, thorough: Any) -> Any:
        return thorough if self.thorough else quick

    def hseed(self) -> int:
        self._given_calls += 1
        return (self.seed * 1000 + (self.shard or 0)) * 100 + self._given_calls

    # ---------------------------------------------------------------- scratch
    def scratch(self) -> str:
        if self._scratch is None:
            self._scratch = tempfile.mkdtemp(prefix="vf-")
        return self._scratch

    def fresh_dir(self, name: str = "d") -> str:
        return tempfile.mkdtemp(prefix=name + "-", dir=self.scratch())

    def cleanup(self) -> None:
        if self._scratch:
            shutil.rmtree(self._scratch, ignore_errors=True)
            self._scratch = None

    # ---------------------------------------------------------------- accounting
    def case(self, case: Any, labels: Iterable[str] = (), nontrivial: bool = False) -> None:
        self.evaluations += 1
        for lab in labels:
            self.labels[lab] += 1
        if nontrivial:
            d = digest(case)
            if d not in self.nt_digests:
                self.nt_digests.add(d)
                self._nt_seen += 1
                k = self._nt_seen
                if k <= 3 or k in (10, 50, 250, 1000, 5000):
                    if len(self.samples) < 8:
                        self.samples.append(trim(case))
        elif not self.samples and self.evaluations == 1:
            pass

    def label(self, *labs: str) -> None:
        for lab in labs:
            self.labels[lab] += 1

    # ---------------------------------------------------------------- violations
    def is_known(self, key: str) -> bool:
        return key in self.open_keys

    def fail(self, key: str, message: str, case: Any = None) -> None:
        raise Violation(key, message, case)

    def require(self, cond: bool, key: str, message: str, case: Any = None) -> None:
        if not cond:
            raise Violation(key, message, case)

    @contextlib.contextmanager
    def no_raise(self, what: str, case: Any = None, allow: tuple = ()):
        """Code under test must not raise here; an exception from redun code is a violation,
        one from anywhere else is a harness error."""
        try:
            yield
        except (Violation, StopCheck, HarnessError):
            raise
        except allow:
            raise
        except Exception as exc:  # noqa: BLE001
            where = redun_frame(exc)
            if where is None:
                raise
            raise Violation(
                f"exc:{what}:{type(exc).__name__}@{where}",
                f"{what} raised {type(exc).__name__}: {str(exc)[:300]}",
                case,
            ) from exc

    def absorb(self, v: Violation) -> bool:
        """True if the violation matches an open known finding (counted, search continues)."""
        if self.is_known(v.key):
            self.known_hits[v.key] += 1
            return True
        return False

    def report(self, v: Violation) -> None:
        """Write the replay file and print the VIOLATION line."""
        self.violations += 1
        os.makedirs(os.path.join(VERIF_DIR, "replays"), exist_ok=True)
        body = {
            "property": self.prop_id,
            "key": v.key,
            "message": v.message,
            "seed": self.seed,
            "tier": self.tier,
            "case": jsonable(v.case),
        }
        d = hashlib.sha1(json.dumps(body["case"], sort_keys=True, default=repr).encode()
                         + v.key.encode()).hexdigest()[:12]
        path = os.path.join(VERIF_DIR, "replays", f"{self.prop_id}-{d}.json")
        with open(path, "w") as f:
            json.dump(body, f, indent=1, sort_keys=True, default=repr)
        print(f"  violation key={v.key}\n  {v.message[:1000]}", flush=True)
        print(f"VIOLATION property={self.prop_id} replay={path}", flush=True)

    # ---------------------------------------------------------------- hypothesis drivers
    def settings(self, max_examples: int, shrink: bool = True, **kw):
        from hypothesis import HealthCheck, Phase, settings

        phases = [Phase.explicit, Phase.generate, Phase.target]
        if shrink:
            phases.append(Phase.shrink)
        return settings(
            max_examples=max_examples,
            database=None,
            deadline=None,
            derandomize=False,
            report_multiple_bugs=False,
            print_blob=False,
            phases=phases,
            suppress_health_check=[HealthCheck.too_slow, HealthCheck.data_too_large,
                                   HealthCheck.filter_too_much, HealthCheck.large_base_example],
            **kw,
        )

    def given(self, strategy, fn: Callable[[Any], None], max_examples: int,
              shrink: bool = True) -> None:
        """Run fn over generated cases. Known findings are counted and skipped; the first
        unknown violation is shrunk, reported, and stops the check."""
        import hypothesis

        ctx = self
        first: list = []

        @hypothesis.seed(self.hseed())
        @self.settings(max_examples, shrink=shrink)
        @hypothesis.given(strategy)
        def t(x):
            try:
                fn(x)
            except Violation as v:
                if v.case is None:
                    v.case = x
                if ctx.absorb(v):
                    return
                if not first:
                    first.append(v)
                raise

        try:
            t()
        except Violation as v:
            self.report(v)
            raise StopCheck() from v
        except hypothesis.errors.Flaky as e:  # pragma: no cover
            # The code under test answered the same case differently on two evaluations (job ids
            # are random uuids, and some defects only show for one ordering of them). A violation
            # that was observed and shows again when its case is re-evaluated is reported with
            # that case; one that never shows again is inconclusive (harness error, exit 2).
            if first:
                for _ in range(6):
                    try:
                        fn(first[0].case)
                    except Violation as v2:
                        if v2.key == first[0].key:
                            v2.case = first[0].case if v2.case is None else v2.case
                            self.report(v2)
                            raise StopCheck() from v2
                    except Exception:  # noqa: BLE001
                        break
            raise HarnessError(f"flaky property: {e}") from e

    def run_machine(self, machine_cls, max_examples: int, steps: int, shrink: bool = True) -> None:
        """Run a RuleBasedStateMachine. The machine must record its own operation list in
        self.ops and raise Violation with case=ops."""
        import hypothesis
        from hypothesis.stateful import run_state_machine_as_test

        seeded = hypothesis.seed(self.hseed())(machine_cls)
        try:
            run_state_machine_as_test(
                seeded, settings=self.settings(max_examples, shrink=shrink,
                                               stateful_step_count=steps)
            )
        except Violation as v:
            self.report(v)
            raise StopCheck() from v
        except hypothesis.errors.Flaky as e:  # pragma: no cover
            raise HarnessError(f"flaky machine: {e}") from e


def shard_range(ctx: Ctx, items: list) -> list:
    """Deterministic split of an enumeration over shards."""
    if ctx.shard is None or ctx.nshards <= 1:
        return items
    return items[ctx.shard::ctx.nshards]
