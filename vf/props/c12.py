"""C12 — failures propagate, are recorded as failed up the ancestor chain, and are never replayed."""
from __future__ import annotations

from hypothesis import strategies as st

from vf.core import Ctx, Violation
from vf.lab import ctl as C
from vf.lab import dbx
from vf.lab import progs as P
from vf.lab import schedrun

ID = "C12"
LEVEL = "exploration"
RULE = (
    "(plus a subrun family: a failing call inside a sub-workflow run through subrun(new_execution=True/False) "
    "with the real local executor, executed twice on one backend: the second execution must call the "
    "failing function again) "
    "Generated programs with an uncaught error-raising leaf (raise in a task body, also of an error whose payload cannot be pickled, throw task, failing "
    "python function) placed at job depth 1-4 inside containers, operators, cond/seq/map/catch with a "
    "non-matching class/let, next to succeeding siblings, plus the generic program grammar with "
    "errors; each run under a generated completion schedule, then executed again on the same backend "
    "(same and different schedule; ancestors optionally check_valid='shallow'). Oracle: run raises an "
    "error whose (type, message) is in the reference outcome set; the Job rows of the job whose "
    "function raised and of every ancestor up to the root are FAILED with an ErrorValue result, and the "
    "execution is FAILED; nothing is submitted after the workflow settled; in the second execution "
    "the error is raised again by actually calling the failing function (a submission with that error "
    "outcome exists), never served from Evaluation/CallNode records. Non-trivial = failing leaf at "
    "job depth >= 2, or a re-execution reaching the failed call through a shallow or catch lookup."
)
ASSUMPTIONS = ["'failed' rows are checked for the error actually observed; other failing siblings may legitimately be unfinished"]
MANIFEST = {"technique": "generated programs x schedules, database audit + re-execution (Hypothesis, controlled executor)"}


@st.composite
def failing_programs(draw):
    kind = draw(st.sampled_from(["throw", "raise_now", "boom"]))
    ek = draw(st.sampled_from(P.ERRK))
    msg = draw(st.sampled_from(["e1", "k", "bad"]))
    if kind == "throw":
        leaf = ["throw", ek, msg]
    elif kind == "raise_now":
        if draw(st.integers(0, 3)) == 0:
            ek = "LockErr"       # an error that cannot be pickled (TypeError): recorded as a generic Exception
        leaf = ["list", [["lit", ["int", 1]], ["raise_now", ek, msg]]]
    else:
        leaf = ["apply", "boom", [["lit", ["int", draw(st.integers(0, 3))]]]]
    depth = draw(st.integers(1, 4))
    shallow = draw(st.booleans())
    cur = leaf
    for level in range(depth):
        w = draw(st.sampled_from(["plain", "list", "op", "cond", "seq", "map", "catch_other", "let", "dict", "bind"]))
        ok1 = ["task", ["lit", ["int", draw(st.integers(0, 3))]], {}, {}]
        if w == "list":
            cur = ["list", [ok1, cur]]
        elif w == "op":
            cur = ["op", "add", cur, ["lit", ["int", 1]]]
        elif w == "cond":
            cur = ["cond", [["lit", ["int", 1]], cur, ok1]]
        elif w == "seq":
            cur = ["seq", [ok1, cur, ["task", ["lit", ["int", 9]], {}, {}]]]
        elif w == "map":
            cur = ["map", ["list", [["var", "x"], cur]], {}, ["list", [["lit", ["int", 1]]]]]
        elif w == "catch_other":
            other = "KeyError" if ek != "KeyError" and kind != "boom" else "ZeroDivisionError"
            cur = ["catch", cur, [other], ["lit", ["int", -1]], {}]
        elif w == "let":
            cur = ["let", "s", ok1, ["list", [["var", "s"], cur]]]
        elif w == "dict":
            cur = ["dict", [["k", ok1], ["m", cur]]]
        opts = {"check_valid": "shallow"} if shallow and draw(st.booleans()) else {}
        if w == "bind":
            cur = ["task", ["var", "a"], {"a": cur}, opts]
        else:
            cur = ["task", cur, {}, opts]
    return cur


@st.composite
def refail_programs(draw):
    """The same failing call reached again after its first failure was handled."""
    ek = draw(st.sampled_from(P.ERRK))
    boom = ["task", ["throw", ek, "again"], {}, {}]
    first = ["catch", ["task", boom, {}, {}], ["Exception"], ["lit", ["int", -1]], {}]
    late = draw(st.sampled_from(["dep", "seq"]))
    second = ["task", ["list", [["var", "a"], boom]], {"a": first}, {}] if late == "dep" else ["seq", [first, ["task", boom, {}, {}]]]
    if draw(st.booleans()):
        second = ["catch", second, ["Exception"], ["lit", ["int", -2]], {}]
    return ["list", [second]]


@st.composite
def cases(draw):
    if draw(st.integers(0, 4)) == 0:
        prog = draw(refail_programs())
    elif draw(st.integers(0, 3)) == 0:
        prog = draw(P.programs(max_depth=3, modes=("node",), errors=True))
    else:
        prog = draw(failing_programs())
    return {"prog": prog, "d1": draw(st.lists(st.integers(0, 4), max_size=30)),
            "d2": draw(st.lists(st.integers(0, 4), max_size=30)), "fine": draw(st.booleans())}


def job_chain(sub):
    ids = []
    j = sub.job
    while j is not None:
        ids.append(j.id)
        j = j.parent_job
    return ids


def audit_failed(case, r, backend) -> int:
    """After a failing run: the job that raised the observed error and its ancestors are FAILED."""
    from redun.backends.db import Execution, Job

    payload = r.payload
    src = [s for s in r.ctl.submissions if s.outcome and s.outcome[0] == "error" and s.outcome[1] is payload]
    session = backend.session
    session.expire_all()
    depth = 0
    if src:
        ids = job_chain(src[0])
        depth = len(ids)
        for jid in ids:
            row = session.query(Job).filter(Job.id == jid).one_or_none()
            if row is None:
                raise Violation("failed-job-not-recorded", f"job {jid[:8]} on the failing chain has no Job row", case)
            if row.status != "FAILED":
                raise Violation("ancestor-not-failed", f"job {jid[:8]} ({row.task.fullname if row.task else '?'}) on the failing "
                                f"chain has status {row.status}, expected FAILED", case)
            if row.call_node is None or row.call_node.value.type != "redun.ErrorValue":
                raise Violation("failed-job-without-error-value", f"job {jid[:8]} has no ErrorValue call node", case)
            if row.end_time is None:
                raise Violation("failed-job-without-end", f"failed job {jid[:8]} has no end time", case)
    # every job the scheduler settled as FAILED (also one that received a failed twin's recorded
    # error through CSE) is recorded as failed, with an end time and an error result
    for sj in r.jobs:
        if sj._status != "FAILED" or (sj.eval_options or {}).get("prov", True) is False:
            continue
        row = session.query(Job).filter(Job.id == sj.id).one_or_none()
        if row is None:
            raise Violation("failed-job-not-recorded", f"failed job {sj.task.fullname} {sj.id[:8]} has no Job row", case)
        if row.end_time is None or row.status != "FAILED":
            raise Violation("failed-job-not-closed", f"failed job {sj.task.fullname} {sj.id[:8]} is recorded with status "
                            f"{row.status} (end_time {row.end_time}, cached {row.cached})", case)
    execs = session.query(Execution).all()
    for e in execs[-1:]:
        if e.status != "FAILED":
            raise Violation("execution-not-failed", f"execution status {e.status} after run raised {type(payload).__name__}", case)
    return depth


def audit_failed_jobs_only(case, r, backend) -> None:
    from redun.backends.db import Job

    session = backend.session
    session.expire_all()
    for sj in r.jobs:
        if sj._status != "FAILED" or (sj.eval_options or {}).get("prov", True) is False:
            continue
        row = session.query(Job).filter(Job.id == sj.id).one_or_none()
        if row is None or row.end_time is None or row.status != "FAILED":
            raise Violation("failed-job-not-closed", f"failed job {sj.task.fullname} {sj.id[:8]} (error handled upstream) is "
                            f"recorded as {None if row is None else row.status} (end_time {None if row is None else row.end_time})", case)


def oracle(ctx: Ctx, case):
    exp = P.reference(case["prog"])
    info = {"depth": 0, "rerun": None}
    backend = dbx.fresh_backend()
    try:
        r1 = schedrun.run_program(case["prog"], decisions=case["d1"], fine=case["fine"], backend=backend)
        if r1.kind in ("quiescent", "budget"):
            raise Violation("stuck", f"run 1 did not terminate: {r1.payload}", case)
        if not P.outcome_in(r1.kind, r1.payload, exp):
            raise Violation("wrong-outcome", f"run 1 gave {r1.kind} {r1.payload!r}; reference oks={exp.oks[:2]!r} "
                            f"errs={[P.err_key(e) for e in exp.errs[:3]]}", case)
        if r1.ctl.submitted_after_settle:
            raise Violation("submitted-after-failure", f"{r1.ctl.submitted_after_settle} jobs submitted after the workflow settled", case)
        if r1.kind == "err":
            info["depth"] = audit_failed(case, r1, backend)
        else:
            audit_failed_jobs_only(case, r1, backend)
        failed1 = {P.err_key(s.outcome[1]) for s in r1.ctl.submissions if s.outcome and s.outcome[0] == "error"}
        # second execution on the same backend
        r2 = schedrun.run_program(case["prog"], decisions=case["d2"], fine=case["fine"], backend=backend)
        if r2.kind in ("quiescent", "budget"):
            raise Violation("stuck", f"run 2 did not terminate: {r2.payload}", case)
        if not P.outcome_in(r2.kind, r2.payload, exp):
            raise Violation("wrong-outcome-rerun", f"re-execution gave {r2.kind} {r2.payload!r}; reference oks={exp.oks[:2]!r} "
                            f"errs={[P.err_key(e) for e in exp.errs[:3]]}", case)
        if r2.kind == "err":
            k2 = P.err_key(r2.payload)
            if k2 in failed1:
                again = [s for s in r2.ctl.submissions if s.outcome and s.outcome[0] == "error" and P.err_key(s.outcome[1]) == k2]
                info["rerun"] = "function-called-again" if again else "replayed"
                if not again:
                    raise Violation("failure-replayed", f"re-execution raised {k2} without calling the failing function again "
                                    f"(submissions: {[s.task_name for s in r2.ctl.submissions]})", case)
            audit_failed(case, r2, backend)
    finally:
        dbx.discard_backend(backend)
    return info, r1


@st.composite
def subrun_cases(draw):
    """A failing call inside a sub-workflow run through subrun() (real local executor and
    sub-scheduler), executed twice on one backend."""
    v = draw(st.integers(0, 3))
    fail = ["task", ["list", [["lit", ["int", 770 + v]], ["raise_now", draw(st.sampled_from(["ValueError", "KeyError"])), "boom"]]], {}, {}]
    body = draw(st.sampled_from([fail, ["list", [["task", ["lit", ["int", v]], {}, {}], fail]], ["op", "add", fail, ["lit", ["int", 1]]]]))
    ne = draw(st.booleans())
    sub = ["subrun", body, ne, {}]
    prog = draw(st.sampled_from([["list", [sub]], ["list", [["task", sub, {}, {}]]]]))
    return {"family": "subrun", "prog": prog, "marker": 770 + v, "new_execution": ne, "cache": True,
            "shape": "alone", "rerun": True, "modes": [ne, ne]}


def subrun_oracle(ctx: Ctx, case) -> None:
    import vf_tasks
    from vf.props import c38

    exp = P.reference(case["prog"])
    path = dbx.new_db_path()
    backend = dbx.open_backend(path)
    try:
        for attempt in range(2):
            vf_tasks.CALLS.clear()
            kind, payload = c38.run_real(case, backend, path, [])
            calls = sum(1 for name, a in vf_tasks.CALLS if str(case["marker"]) in a)
            if not P.outcome_in(kind, payload, exp):
                raise Violation("wrong-outcome:subrun", f"execution {attempt} through subrun gave {kind} {payload!r}; reference "
                                f"errs={[P.err_key(e) for e in exp.errs[:3]]}", case)
            if kind == "err" and calls == 0:
                mode = "new-execution" if case["new_execution"] else "extend"
                raise Violation(f"failure-replayed:subrun-{mode}",
                                f"execution {attempt} raised {P.err_key(payload)} without calling the failing function again: the "
                                f"failure of a sub-workflow run with subrun(new_execution={case['new_execution']}) is replayed from "
                                f"the cached result of redun.subrun_root_task", case)
    finally:
        dbx.discard_backend(backend)


def run_case(ctx: Ctx, case) -> None:
    if case.get("family") == "subrun":
        try:
            subrun_oracle(ctx, case)
        finally:
            ctx.case(case, labels=["family:subrun", f"new_execution:{case['new_execution']}"], nontrivial=True)
        return
    info, r1 = {"depth": 0, "rerun": None}, None
    try:
        info, r1 = oracle(ctx, case)
    finally:
        labels = [f"fine:{case['fine']}", f"chain-depth:{min(info['depth'], 5)}"]
        if r1 is not None:
            labels.append(f"run1:{r1.kind}")
        if info["rerun"]:
            labels.append(info["rerun"])
        shallow = "shallow" in repr(case["prog"])
        if shallow:
            labels.append("shallow-ancestor")
        nt = info["depth"] >= 3 or (info["rerun"] is not None and (shallow or "catch" in repr(case["prog"])))
        ctx.case(case, labels=labels, nontrivial=nt)


def check(ctx: Ctx) -> None:
    C.quiet_logs()
    ctx.given(cases(), lambda c: run_case(ctx, c), ctx.n(150, 6000))
    ctx.given(subrun_cases(), lambda c: run_case(ctx, c), ctx.n(12, 160), shrink=False)


def replay(ctx: Ctx, case) -> None:
    C.quiet_logs()
    if case.get("family") == "subrun":
        subrun_oracle(ctx, case)
        return
    oracle(ctx, case)
