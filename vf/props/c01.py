"""C01 — scheduler evaluation agrees with the documented graph-reduction semantics."""
from __future__ import annotations

from vf.core import Ctx, Violation
from vf.lab import ctl as C
from vf.lab import dbx, progs as P

ID = "C01"
LEVEL = "exploration"
RULE = (
    "Hypothesis-generated programs (JSON AST, <=26 nodes, job depth <=4) over: task calls with "
    "bindings, partial tasks, tasks with expression-valued defaults, nested containers (list/tuple/"
    "dict/named tuple/dataclass) holding expressions, lazy operators (incl. reflected forms, and/or), "
    "getitem/getattr/lazy call of task values, nout destructuring, let-shared expressions, cond (with "
    "elif chains), seq, catch (class tuples, recover using the error), catch_all (with/without "
    "recover), map_ (incl. fused nested maps), flat_map, apply_func, fork_thread/join_thread, "
    "apply_tags, and error leaves (throw task, raise inside a body, division by zero, failing python "
    "function, bad index) of four exception types; each task node runs in thread, process or async "
    "mode. Oracle: Scheduler.run(compile(p)) on a fresh backend returns a value deep-typed-equal to a "
    "member of, or raises an error whose (type, message) is in, the outcome set of an independent "
    "eager interpreter written from the docs. Non-trivial = >=2 job levels and a control form, lazy "
    "operator, expression in a container, partial/default task or error path."
)
ASSUMPTIONS = [
    "tasks are deterministic; where several siblings fail, any of their errors may be the one observed (outcome set)",
    "operators are always made lazy (a concrete left operand is lifted with an identity task), so evaluation order is the scheduler's",
]
MANIFEST = {"technique": "differential testing of generated programs against a reference interpreter (Hypothesis)"}


def run_real(prog, use_ctl=False):
    import vf_tasks

    sched = C.new_scheduler()
    if use_ctl:
        C.Ctl().attach(sched)
    try:
        try:
            v = sched.run(vf_tasks.node(P.fresh(prog), {}))
            return ("ok", v)
        except Exception as e:  # noqa: BLE001 - the program's own failure is an outcome
            return ("err", e)
    finally:
        dbx.discard_backend(sched.backend)


def describe(out: P.Out) -> str:
    return f"oks={[repr(v)[:80] for v in out.oks[:3]]} errs={[P.err_key(e) for e in out.errs[:4]]}"


def oracle(ctx: Ctx, prog, use_ctl=False) -> P.Out:
    exp = P.reference(prog)
    kind, payload = run_real(prog, use_ctl)
    if not P.outcome_in(kind, payload, exp):
        got = repr(payload)[:200] if kind == "ok" else f"{type(payload).__name__}: {payload}"
        f = P.features(prog)
        culprit = classify(kind, payload, exp)
        raise Violation(culprit, f"Scheduler.run gave {kind} {got}; reference outcome set: {describe(exp)}", prog)
    return exp


def classify(kind, payload, exp) -> str:
    if kind == "err":
        from vf.core import redun_frame

        where = redun_frame(payload) or "task"
        return f"unexpected-error:{type(payload).__name__}@{where}"
    if exp.oks:
        return "wrong-value"
    return "value-instead-of-error"


def run_case(ctx: Ctx, prog, tag="thread") -> None:
    f = P.features(prog)
    exp = None
    try:
        exp = oracle(ctx, prog, use_ctl=(tag == "controlled"))
    finally:
        labels = sorted(f["kinds"]) + [f"jobdepth:{min(f['jobdepth'], 4)}", f"mode:{tag}"]
        if exp is not None:
            labels.append("outcome:" + ("error" if not exp.oks else "value" if not exp.errs else "either"))
            labels.append("singleton" if len(exp.oks) + len({P.err_key(e) for e in exp.errs}) == 1 else "multi")
        ctx.case(prog, labels=labels, nontrivial=P.nontrivial_c01(f))


def check(ctx: Ctx) -> None:
    C.quiet_logs()
    # bulk: the harness-owned single-threaded executor (same scheduler code, ~3x faster)
    ctx.given(P.programs(max_depth=4, modes=("node", "node", "dnode")), lambda p: run_case(ctx, p, "controlled"),
              ctx.n(320, 20000))
    # the real local executors: thread pool + async loop, then the process pool
    ctx.given(P.programs(max_depth=4, modes=("node", "node", "dnode", "anode")), lambda p: run_case(ctx, p, "thread+async"),
              ctx.n(70, 4800))
    ctx.given(P.programs(max_depth=3, modes=("node", "pnode", "pnode")), lambda p: run_case(ctx, p, "process"),
              ctx.n(10, 960), shrink=False)


def replay(ctx: Ctx, case) -> None:
    C.quiet_logs()
    oracle(ctx, case)
    if '"anode"' not in __import__("json").dumps(case) and '"pnode"' not in __import__("json").dumps(case):
        oracle(ctx, case, use_ctl=True)
