"""C21 — upstream dataflow of arguments is recorded."""
from __future__ import annotations

from hypothesis import strategies as st

from vf.core import Ctx, Violation
from vf.lab import ctl as C
from vf.lab import dbx
from vf.lab import progs as P
from vf.lab import schedrun

ID = "C21"
LEVEL = "exploration"
RULE = (
    "Generated programs (C01 grammar without uncaught-error emphasis) whose task calls receive "
    "arguments produced by other task calls directly, through lazy operators, getitem/getattr, "
    "containers, let-shared expressions (used twice), nout destructuring and map_ elements; run under "
    "generated schedules on a file-backed backend, optionally re-executed from cache. Oracle over the "
    "database: (1) for every job handed to the executor, the Argument rows of its call node carry "
    "exactly the values the task function received (equal hash; when the hashes differ the recorded "
    "value is read back and must be deeply, type-exactly equal: the pickle-based hash also depends on "
    "object sharing inside a value), positional ones by position and defaulted parameters by keyword; (2) for every task-call node in the program, the task calls that "
    "are direct structural sources of its bindings (through operators, containers, getitem/getattr, "
    "let) — `must` — are among the upstream call nodes recorded for the corresponding argument, and "
    "every recorded upstream is an existing call node of this database (`may`). Non-trivial = an "
    "argument derived through an operator, container or shared expression from >=1 task call."
)
ASSUMPTIONS = [
    "a call is identified by its task and the hash of its body AST (several calls of one body with different bindings are not told apart)",
    "scheduler forms (cond/seq/catch) contribute to `may` only; their taken branches are not required",
]
MANIFEST = {"technique": "database audit of recorded dataflow against the program structure (Hypothesis, controlled executor)"}

ALLOW = ["lit", "var", "task", "task", "task", "task", "ptask", "op", "op", "list", "tuple", "dict", "nt", "dc", "let",
         "getitem", "getattr", "nout", "map", "cond", "seq", "apply", "catch"]


@st.composite
def dataflow_programs(draw):
    """Programs built so that arguments are derived from task results."""
    def src(v):
        return ["task", ["lit", ["int", v]], {}, {}]

    def derived(depth):
        c = draw(st.integers(0, 7))
        v = draw(st.integers(0, 3))
        if depth <= 0 or c == 0:
            return src(v)
        if c == 1:
            return ["op", draw(st.sampled_from(["add", "mul", "sub"])), derived(depth - 1), ["lit", ["int", 1]]]
        if c == 2:
            return ["op", "add", ["lit", ["int", 2]], derived(depth - 1)]        # reflected operator
        if c == 3:
            return ["list", [derived(depth - 1), ["lit", ["int", v]]]]
        if c == 4:
            return ["getitem", ["task", ["list", [["lit", ["int", v]], ["lit", ["int", v + 1]]]], {}, {}], 0]
        if c == 5:
            return ["getattr", ["task", ["nt", ["lit", ["int", v]], ["lit", ["int", 1]]], {}, {}], "x"]
        if c == 6:
            return ["dict", [["k", derived(depth - 1)]]]
        return ["nout", ["list", [["lit", ["int", v]], ["lit", ["int", 9]]]], {}, 2, draw(st.integers(0, 1))]

    consumers = []
    for i in range(draw(st.integers(1, 3))):
        binds = {n: derived(2) for n in ["a", "b"][:draw(st.integers(1, 2))]}
        t = draw(st.sampled_from(["node", "node", "dnode"]))
        # a unique marker in the body: identical calls share one call node (and one set of
        # argument records), which would make the call site -> call node mapping ambiguous
        body = ["list", [["lit", ["int", 100 + i]]] + [["var", n] for n in binds]]
        consumers.append(["task", body, binds, {"t": t} if t != "node" else {}])
    if draw(st.booleans()):
        # an argument with two distinct direct sources
        v = draw(st.integers(0, 2))
        consumers.append(["task", ["list", [["lit", ["int", 150]], ["var", "a"], ["var", "b"]]],
                          {"a": src(v), "b": ["op", "add", src(v + 1), src(v + 2)]}, {}])
    shape = draw(st.sampled_from(["list", "let", "map", "deferred", "deferred"]))
    if shape == "deferred":
        # the same upstream call written twice (two equal expressions, distinct objects): the second
        # is only evaluated after the first has finished, in the taken branch of a cond, a later
        # item of a seq, or a catch recover expression, and is then passed on to a consumer
        v = draw(st.integers(0, 3))
        first = ["task", ["list", [["lit", ["int", 300]], ["var", "a"]]], {"a": src(v)}, {}]
        through = draw(st.sampled_from(["direct", "op", "getitem"]))
        arg = src(v)
        if through == "op":
            arg = ["op", "add", src(v), ["lit", ["int", 1]]]
        elif through == "getitem":
            first = ["task", ["list", [["lit", ["int", 300]], ["var", "a"]]], {"a": ["task", ["list", [["lit", ["int", v]], ["lit", ["int", 5]]]], {}, {}]}, {}]
            arg = ["getitem", ["task", ["list", [["lit", ["int", v]], ["lit", ["int", 5]]]], {}, {}], 0]
        second = ["task", ["list", [["lit", ["int", 301]], ["var", "a"]]], {"a": arg}, {}]
        form = draw(st.sampled_from(["cond", "seq", "catch"]))
        if form == "cond":
            core = ["cond", [first, second, ["lit", ["int", 0]]]]
        elif form == "seq":
            core = ["seq", [first, second]]
        else:
            core = ["list", [first, ["catch", ["list", [first, ["throw", "ValueError", "e1"]]], ["ValueError"], second, {}]]]
        return ["list", [core] + consumers[:1]]
    if shape == "let":
        shared = derived(1)
        return ["let", "s", shared, ["list", [["task", ["list", [["lit", ["int", 200]], ["var", "a"]]], {"a": ["var", "s"]}, {}],
                                             ["task", ["list", [["var", "a"], ["lit", ["int", 201]]]], {"a": ["var", "s"]}, {}]] + consumers]]
    if shape == "map":
        return ["list", [["map", ["op", "add", ["var", "x"], ["lit", ["int", 1]]], {}, ["list", [derived(1), ["lit", ["int", 0]]]]]] + consumers]
    return ["list", consumers]


@st.composite
def cases(draw):
    if draw(st.integers(0, 2)) == 0:
        prog = draw(P.programs(max_depth=3, modes=("node", "dnode"), errors=False, allow=ALLOW))
    else:
        prog = draw(dataflow_programs())
    return {"prog": prog, "d1": draw(st.lists(st.integers(0, 4), max_size=30)), "fine": draw(st.booleans()),
            "rerun": draw(st.booleans())}


def vhash(v):
    from redun.value import get_type_registry

    return get_type_registry().get_hash(v)


def same_value(backend, value_hash, received, stats) -> bool:
    """The property speaks of equal VALUES. redun's pickle-based hash also depends on which equal
    sub-objects are one object (pickle memoisation: Point(x=L, y=L) with one shared list L pickles
    differently from the same value with two equal lists), and argument preprocessing may copy a
    value between the two hashings. So a hash mismatch is only a violation if the recorded value,
    read back, is not deeply (and type-exactly) equal to what the task received."""
    from vf.lab.values import deep_typed_equal

    try:
        obj, ok_ = backend.get_value(value_hash)
    except Exception:  # noqa: BLE001
        return False
    if ok_ and deep_typed_equal(obj, received):
        stats["equal_but_other_sharing"] = stats.get("equal_but_other_sharing", 0) + 1
        return True
    return False


def ahash(ast):
    """Hash of an AST as the program run records it (programs are de-interned by P.fresh, and the
    pickle-based value hash depends on which equal strings are the same object)."""
    return vhash(P.fresh(ast))


EXPR_KINDS = {"task", "ptask", "nout", "op", "getitem", "getattr", "cond", "seq", "catch", "catch_all", "map", "map2",
              "flat_map", "apply", "fork_join", "tags", "throw", "callv", "getctx", "use", "peek"}


def is_expr(ast, lets) -> bool:
    """Does comp() turn this AST into a redun Expression object (as opposed to a concrete value
    or a Python container)?"""
    if ast[0] == "var":
        return ast[1] in lets and is_expr(lets[ast[1]][0], lets[ast[1]][1])
    if ast[0] == "let":
        return is_expr(ast[3], {**lets, ast[1]: (ast[2], lets)})
    return ast[0] in EXPR_KINDS


def must_sources(ast, lets) -> set:
    """Body hashes of task calls that are direct structural sources of the value of `ast`."""
    k = ast[0]
    if k in ("task", "ptask", "nout"):
        return {ahash(ast[1])}
    if k == "op":
        if not is_expr(ast[2], lets) and not is_expr(ast[3], lets):
            return set()       # both operands concrete: the harness lifts the left one with ident()
        return must_sources(ast[2], lets) | must_sources(ast[3], lets)
    if k in ("list", "tuple", "set"):
        out = set()
        for a in ast[1]:
            out |= must_sources(a, lets)
        return out
    if k == "dict":
        out = set()
        for _, a in ast[1]:
            out |= must_sources(a, lets)
        return out
    if k in ("nt", "dc"):
        return must_sources(ast[1], lets) | must_sources(ast[2], lets)
    if k in ("getitem", "getattr"):
        if not is_expr(ast[1], lets):
            return set()       # concrete operand: lifted with ident(), which becomes the source
        return must_sources(ast[1], lets)
    if k == "var" and ast[1] in lets:
        return must_sources(lets[ast[1]][0], lets[ast[1]][1])
    return set()


def call_sites(ast, lets, out):
    """Every task-call node compiled in the bodies reachable from `ast`: (node, lets-in-scope)."""
    if not isinstance(ast, list) or not ast or not isinstance(ast[0], str):
        return
    k = ast[0]
    if k in ("task", "ptask"):
        out.append((ast, lets))
        call_sites(ast[1], {}, out)           # the callee's body: fresh scope
    if k == "let":
        call_sites(ast[2], lets, out)
        lets2 = dict(lets)
        lets2[ast[1]] = (ast[2], lets)
        call_sites(ast[3], lets2, out)
        return
    if k in ("map",):
        call_sites(ast[1], {}, out)
    for sub in P.compiled_children(ast):
        call_sites(sub, lets, out)


def audit(case, backend, runs) -> dict:
    from redun.backends.db import Argument, ArgumentResult, CallNode

    session = backend.session
    session.expire_all()
    stats = {"args_checked": 0, "must_checked": 0, "derived": 0, "defaults": 0}
    nodes = {c.call_hash: c for c in session.query(CallNode).all()}
    arg0 = {}      # call_hash -> body hash (argument 0 of vf.node-like calls)
    for a in session.query(Argument).filter(Argument.arg_position == 0).all():
        arg0[a.call_hash] = a.value_hash
    for a in session.query(Argument).filter(Argument.arg_key == "ast").all():
        arg0[a.call_hash] = a.value_hash     # calls through a keyword-bound partial (vf.kelem)
    # (1) recorded argument values == values the function received
    for r in runs:
        for sub in r.ctl.submissions:
            ch = sub.job.call_hash
            if not ch or ch not in nodes or not sub.done:
                continue
            args, kwargs = sub.args
            rows = session.query(Argument).filter(Argument.call_hash == ch).all()
            pos = {a.arg_position: a for a in rows if a.arg_position is not None}
            kw = {a.arg_key: a for a in rows if a.arg_position is None}
            if len(pos) != len(args):
                raise Violation("argument-count", f"{sub.task_name}: {len(pos)} positional Argument rows for {len(args)} received values", case)
            for i, v in enumerate(args):
                if pos[i].value_hash != vhash(v) and not same_value(backend, pos[i].value_hash, v, stats):
                    raise Violation("argument-value", f"{sub.task_name}: recorded argument {i} is not the value the task received ({v!r:.80})", case)
                stats["args_checked"] += 1
            if set(kw) != set(kwargs):
                raise Violation("argument-keywords", f"{sub.task_name}: recorded keyword arguments {sorted(kw)} != received {sorted(kwargs)}", case)
            for k_, v in kwargs.items():
                if kw[k_].value_hash != vhash(v) and not same_value(backend, kw[k_].value_hash, v, stats):
                    raise Violation("argument-value", f"{sub.task_name}: recorded argument {k_} is not the value the task received", case)
                stats["args_checked"] += 1
            if sub.task_name == "vf.dnode":
                stats["defaults"] += 1
                for name in ("d", "d2"):
                    if name not in kw and name not in {None}:
                        if not any(a.arg_key == name for a in rows):
                            raise Violation("default-not-by-keyword", f"vf.dnode: defaulted parameter {name} is not recorded as a keyword argument", case)
    # (2) must ⊆ recorded upstream ⊆ existing call nodes
    sites = []
    call_sites(case["prog"], {}, sites)
    by_body = {}
    for ch, bh in arg0.items():
        by_body.setdefault(bh, []).append(ch)
    site_count = {}
    for node, _ in sites:
        site_count[ahash(node[1])] = site_count.get(ahash(node[1]), 0) + 1
    for node, lets in sites:
        body_h = ahash(node[1])
        if site_count[body_h] > 1:
            continue            # several call sites share this body: they may be one deduplicated call
        callee_hashes = [ch for ch in by_body.get(body_h, []) if nodes[ch].task_name in ("vf.node", "vf.dnode")]
        if not callee_hashes or not node[2]:
            continue
        must = set()
        for b in node[2].values():
            must |= must_sources(b, lets)
        must = {m for m in must if m in by_body}         # only sources that actually ran
        if not must:
            continue
        stats["must_checked"] += 1
        if any(b[0] != "task" for b in node[2].values()):
            stats["derived"] += 1
        ok_any = False
        best = None
        for ch in callee_hashes:
            env_arg = session.query(Argument).filter(Argument.call_hash == ch, Argument.arg_position == 1).first()
            ups = set()
            if env_arg is not None:
                for ar in session.query(ArgumentResult).filter(ArgumentResult.arg_hash == env_arg.arg_hash).all():
                    if ar.result_call_hash not in nodes:
                        raise Violation("upstream-dangling", f"upstream {ar.result_call_hash[:8]} of an argument is not a recorded call node", case)
                    ups.add(arg0.get(ar.result_call_hash))
            best = (must - ups) if best is None or len(must - ups) < len(best) else best
            if must <= ups:
                ok_any = True
        if not ok_any:
            raise Violation("upstream-missing", f"call with body {node[1]!r:.80}: {len(best)} structural source call(s) of its bindings "
                            f"{ {n: b for n, b in node[2].items()}!r:.200} are not recorded as upstream of its argument", case)
    return stats


def oracle(ctx: Ctx, case):
    backend = dbx.fresh_backend()
    runs = []
    try:
        r1 = schedrun.run_program(case["prog"], decisions=case["d1"], fine=case["fine"], backend=backend)
        runs.append(r1)
        if r1.kind in ("quiescent", "budget"):
            raise Violation("stuck", f"did not terminate: {r1.payload}", case)
        if case["rerun"]:
            runs.append(schedrun.run_program(case["prog"], decisions=[], fine=False, backend=backend))
        stats = audit(case, backend, runs)
    finally:
        dbx.discard_backend(backend)
    return stats


def run_case(ctx: Ctx, case) -> None:
    stats = None
    try:
        stats = oracle(ctx, case)
    finally:
        labels = [f"rerun:{case['rerun']}"]
        nt = False
        if stats:
            labels += [k for k in ("must_checked", "derived", "defaults") if stats[k]]
            nt = stats["derived"] > 0
        ctx.case(case, labels=labels, nontrivial=nt)


# ---------------------------------------------------------------- cached replay with an edited consumer
@st.composite
def replay_cases(draw):
    ar = lambda: {"k": "arith", "mul": draw(st.integers(1, 2)), "add": draw(st.integers(0, 3))}  # noqa: E731
    return {"replay": True, "root": {"k": "callcond", "consumer": 1, "test": 2, "then": 3, "kw": draw(st.booleans())},
            "t1": ar(), "t2": ar(), "t3": ar(), "t1b": {"k": "arith", "mul": 3, "add": draw(st.integers(4, 6))},
            "arg": draw(st.integers(0, 3)), "edit": draw(st.sampled_from(["consumer", "consumer", "then"])),
            "decisions": draw(st.lists(st.integers(0, 3), max_size=10))}


def replay_oracle(ctx: Ctx, case):
    """Run 1 records t0 -> t1(cond(t2(x) >= 0, t3(x), x)). Then the consumer t1 (or the branch t3) is
    edited: in run 2 t0 is a cache hit, its result expression comes back from the database, and
    the re-executed consumer gets a new call node whose argument must still be linked to the
    calls that produced it (the cond test t2 and the taken branch t3)."""
    from redun.backends.db import Argument, ArgumentResult, CallNode
    from vf.lab import codefam

    fam = codefam.Family(4)
    fam.install_all([case["root"], case["t1"], case["t2"], case["t3"]])
    backend = dbx.fresh_backend()
    try:
        r1 = schedrun.run_program(None, decisions=case["decisions"], expr=fam.root_expr(case["arg"]), backend=backend)
        if case["edit"] == "consumer":
            fam.install(1, case["t1b"])
        else:
            fam.install(3, {**case["t3"], "add": case["t3"]["add"] + 7})
        r2 = schedrun.run_program(None, decisions=[], expr=fam.root_expr(case["arg"]), backend=backend)
        if r1.kind != "ok" or r2.kind != "ok":
            raise Violation("replay-run-failed", f"runs ended {r1.kind}/{r2.kind}: {r1.payload!r} {r2.payload!r}", case)
        session = backend.session
        session.expire_all()
        consumer_hash = fam.tasks[1].hash
        nodes = session.query(CallNode).filter(CallNode.task_hash == consumer_hash).order_by(CallNode.timestamp.desc()).all()
        if not nodes:
            raise Violation("replay-consumer-not-recorded", "the re-executed consumer has no call node", case)
        node = nodes[0]
        args = session.query(Argument).filter(Argument.call_hash == node.call_hash).all()
        ups = set()
        for a in args:
            for ar in session.query(ArgumentResult).filter(ArgumentResult.arg_hash == a.arg_hash).all():
                up = session.get(CallNode, ar.result_call_hash)
                if up is None:
                    raise Violation("upstream-dangling", "recorded upstream is not a call node", case)
                ups.add(up.task_name)
        want = {"vf_fam.t2", "vf_fam.t3"}
        if not want <= ups:
            raise Violation(f"upstream-missing:after-cached-replay:{case['edit']}",
                            f"consumer re-executed after its caller was replayed from the cache: its argument cond(t2(x)>=0, t3(x), x) "
                            f"is linked to {sorted(ups)}, expected at least {sorted(want)}", case)
    finally:
        dbx.discard_backend(backend)


def run_replay_case(ctx: Ctx, case) -> None:
    try:
        replay_oracle(ctx, case)
    finally:
        ctx.case(case, labels=["cached-replay", f"edit:{case['edit']}"], nontrivial=True)


def check(ctx: Ctx) -> None:
    C.quiet_logs()
    ctx.given(cases(), lambda c: run_case(ctx, c), ctx.n(200, 6000))
    ctx.given(replay_cases(), lambda c: run_replay_case(ctx, c), ctx.n(30, 1200))


def replay(ctx: Ctx, case) -> None:
    C.quiet_logs()
    if isinstance(case, dict) and case.get("replay"):
        replay_oracle(ctx, case)
    else:
        oracle(ctx, case)
