"""C04 — cached results with external (file) values are replayed only while still valid."""
from __future__ import annotations

import os

from hypothesis import strategies as st

from vf.core import Ctx, HarnessError, StopCheck, Violation
from vf.lab import ctl as C
from vf.lab import dbx, fsx

ID = "C04"
LEVEL = "exploration"
RULE = (
    "For each K in File/Dir/FileSet, ContentFile/ContentDir/ContentFileSet, IFile/IDir/IFileSet: the "
    "workflow consume(make(K, root, ...)) where task make writes 1-2 output units (a file, a glob of "
    "*.txt next to a .dat, or a 3-level directory) through plain open() or redun's File API and "
    "returns the K value bare or nested in list/dict/tuple results (one or two values). Generated "
    "histories (<=10 ops, <=16 in the thorough tier) on one SQLite backend alternate real Scheduler.run (new Scheduler per run, "
    "controlled executor counting task-function calls, two argument variants) with fsx mutations of "
    "the outputs carrying generated (content, mtime): delete, truncate, rewrite, recreate identical "
    "bytes with a new mtime, touch, rewrite keeping size and mtime, add a member inside/outside the "
    "value's scope, rmtree. Oracle = reference validity model computed from the harness's own "
    "snapshots (recorded right after the producing run vs now): File/FileSet/Dir valid iff every "
    "member in scope has the same (exists, size, mtime) and no member was added/removed; Content* "
    "iff same members with the same bytes; I* always. (a) no exception escapes run; (b) make runs "
    "exactly once if never recorded or invalid, and not at all if valid (never for I* once "
    "recorded); (c) after a producing run every output exists with the bytes the task writes, and "
    "when consume ran its result describes the current files. Non-trivial = a run that follows a "
    "mutation of a recorded output."
)
ASSUMPTIONS = [
    "local filesystem, no hidden names or symlinks; Handles are not covered here",
    "generated mtimes are whole seconds in 2001 (os.utime), distinct per history step and from clock mtimes",
    "the cache keeps, per (task, arguments), the most recently recorded result (Evaluation row)",
]
MANIFEST = {"technique": "model-based testing: run/mutate histories vs. reference validity model (Hypothesis + controlled executor)"}

FILE_K = ["File", "ContentFile", "IFile"]
DIR_K = ["Dir", "ContentDir", "IDir"]
SET_K = ["FileSet", "ContentFileSet", "IFileSet"]
CLASSES = ["File", "Dir", "FileSet", "ContentFile", "ContentDir", "ContentFileSet", "IFile", "IDir", "IFileSet"]
FAM = {**{k: "file" for k in FILE_K}, **{k: "dir" for k in DIR_K}, **{k: "set" for k in SET_K}}
KIND = {"File": "stat", "Dir": "stat", "FileSet": "stat",
        "ContentFile": "bytes", "ContentDir": "bytes", "ContentFileSet": "bytes",
        "IFile": "const", "IDir": "const", "IFileSet": "const"}

# what the task writes in one unit directory u<i>/ (relative names)
MEMBERS = {"file": ["out.txt"], "set": ["a.txt", "b.txt", "c.dat"], "dir": ["a.txt", "sub/b.txt", "sub/deep/c.dat"]}
# extra names a mutation may add
EXTRAS = ["x.txt", "y.dat", "sub/z.txt", "sub/deep/w.txt"]
SHAPES = {"bare": 1, "list": 1, "dict": 1, "deep": 1, "pair": 2, "dictpair": 2}


def unit_arg(fam: str, root: str, u: int) -> str:
    """Constructor argument of the value for unit u."""
    base = os.path.join(root, f"u{u}")
    if fam == "file":
        return os.path.join(base, "out.txt")
    if fam == "set":
        return os.path.join(base, "*.txt")
    return base


def in_scope(fam: str, rel_in_unit: str) -> bool:
    """Harness's own reading of which files the value of a unit covers."""
    if fsx.hidden(rel_in_unit):
        return False
    if fam == "file":
        return rel_in_unit == "out.txt"
    if fam == "set":
        return os.sep not in rel_in_unit and rel_in_unit.endswith(".txt")
    return True


def content_for(salt: str, u: int, rel: str, variant: int) -> bytes:
    return f"{salt}|{u}|{rel}|{variant}".encode()


# ---------------------------------------------------------------- tasks (registered once)
_T: dict = {}


def tasks():
    if _T:
        return _T
    from redun import task
    import redun.file as RF

    @task(name="make", namespace="vf_c04", version="1")
    def make(kind: str, root: str, nunits: int, shape: str, variant: int, salt: str, api: bool):
        cls = getattr(RF, kind)
        fam = FAM[kind]
        vals = []
        for u in range(nunits):
            for rel in MEMBERS[fam]:
                path = os.path.join(root, f"u{u}", rel)
                data = content_for(salt, u, rel, variant)
                if api:
                    cls.classes.File(path).write(data, mode="wb")
                else:
                    os.makedirs(os.path.dirname(path), exist_ok=True)
                    with open(path, "wb") as f:
                        f.write(data)
            vals.append(cls(unit_arg(fam, root, u)))
        if shape == "bare":
            return vals[0]
        if shape == "list":
            return [vals[0]]
        if shape == "dict":
            return {"k": vals[0], "n": 1}
        if shape == "deep":
            return {"a": [1, (vals[0],)], "b": "x"}
        if shape == "pair":
            return [vals[0], vals[1]]
        if shape == "dictpair":
            return {"x": vals[0], "y": [vals[1]]}
        raise ValueError(shape)

    @task(name="consume", namespace="vf_c04", version="1")
    def consume(x, root: str):
        out = []
        for dirpath, _dirs, files in os.walk(root):
            for name in files:
                full = os.path.join(dirpath, name)
                with open(full, "rb") as f:
                    out.append([os.path.relpath(full, root), f.read().hex()])
        return sorted(out)

    @task(name="peek", namespace="vf_c04", version="1")
    def peek(x=None, tag: int = 0):
        return 1

    @task(name="wrap", namespace="vf_c04", version="1")
    def wrap(kind: str, root: str, how: str):
        """Builds the external value inside its body and hands it to a child call: the value then
        lives inside wrap's cached result EXPRESSION (as a positional or keyword argument, under a
        lazy operator, nested in a container)."""
        v = getattr(RF, kind)(unit_arg(FAM[kind], root, 0))
        if how == "kw":
            return peek(x=v)
        if how == "pos":
            return peek(v)
        if how == "op":
            return peek(v) + 0
        if how == "kwnested":
            return peek(x=[v, 1], tag=1)
        return [peek(x={"k": v})]

    _T.update(make=make, consume=consume, wrap=wrap, peek=peek)
    return _T


# ---------------------------------------------------------------- generators
C_ = fsx.contents
M_ = fsx.mslots
unit = st.integers(0, 1)


def T(name, *parts):
    return st.tuples(st.just(name), *parts).map(list)


def mutations(fam: str):
    nm = len(MEMBERS[fam])
    t = st.integers(0, nm - 1)
    e = st.integers(0, len(EXTRAS) - 1)
    return st.one_of(
        T("del", unit, t), T("del", unit, t),
        T("trunc", unit, t, M_),
        T("rewrite", unit, t, C_, M_),
        T("same", unit, t, M_),
        T("touch", unit, t, M_),
        T("samestat", unit, t),
        T("add", unit, e, C_, M_),
        T("deladd", unit, e),
        T("rmtree", unit),
    )


run_op = st.one_of(T("run", st.just(0)), T("run", st.just(0)), T("run", st.integers(0, 1)))


@st.composite
def cases(draw, cls: str, long: bool = False):
    fam = FAM[cls]
    shape = draw(st.sampled_from(sorted(SHAPES)))
    nblocks = draw(st.integers(1, 7 if long else 4))
    ops = [["run", 0]]
    for _ in range(nblocks):
        ops.extend(draw(st.lists(mutations(fam), min_size=0, max_size=2)))
        ops.append(draw(run_op))
    return {"cls": cls, "shape": shape, "api": draw(st.booleans()), "salt": draw(st.sampled_from(["s", "tt"])),
            "ops": ops[:16 if long else 10], "how": draw(st.sampled_from(["kw", "pos", "op", "kwnested", "listkw"]))}


# ---------------------------------------------------------------- reference model
def scope_view(kind: str, fam: str, nunits: int, snap: dict):
    """Projection of a full snapshot (paths relative to root) onto what validity may depend on."""
    if kind == "const":
        return ()
    out = []
    for rel, (size, mtime, data) in snap.items():
        parts = rel.split(os.sep)
        if not parts[0].startswith("u") or len(parts) < 2:
            continue
        u = int(parts[0][1:])
        if u >= nunits or not in_scope(fam, os.sep.join(parts[1:])):
            continue
        out.append((rel, size, mtime) if kind == "stat" else (rel, data))
    return tuple(sorted(out))


def change_class(fam: str, nunits: int, rec: dict, cur: dict) -> str:
    """Names what happened to the recorded outputs (for finding keys)."""
    def scoped(snap):
        return {r: v for r, v in snap.items()
                if r.split(os.sep)[0] in {f"u{u}" for u in range(nunits)}
                and in_scope(fam, os.sep.join(r.split(os.sep)[1:]))}
    a, b = scoped(rec), scoped(cur)
    if set(a) - set(b):
        return "deleted"
    if set(b) - set(a):
        return "member-added"
    if any(a[r][0] != b[r][0] for r in a):
        return "size"
    if any(a[r][2] != b[r][2] for r in a):
        return "bytes"
    if any(a[r][1] != b[r][1] for r in a):
        return "mtime"
    if rec != cur:
        return "unrelated"
    return "none"


# ---------------------------------------------------------------- interpreter
class World:
    def __init__(self, ctx: Ctx, case: dict, strict: bool):
        self.ctx = ctx
        self.case = case
        self.strict = strict
        self.K = case["cls"]
        self.fam = FAM[self.K]
        self.kind = KIND[self.K]
        self.shape = case["shape"]
        self.nunits = SHAPES[self.shape]
        self.tree = fsx.Tree(ctx.fresh_dir("c04"))
        self.root = self.tree.root
        C.quiet_logs()
        self.backend = dbx.fresh_backend()
        self.recorded: dict = {}      # variant -> full snapshot right after the producing run
        self.mutated_since_run = False
        self.nontrivial = False
        self.labels = {f"cls:{self.K}", f"shape:{self.shape}"}
        self.step_no = 0

    def destroy(self) -> None:
        try:
            dbx.discard_backend(self.backend)
        finally:
            self.tree.destroy()

    def defect(self, key: str, msg: str) -> None:
        v = Violation(key, msg, self.case)
        if not self.strict and self.ctx.absorb(v):
            return
        raise v

    def t(self, m: int) -> int:
        return fsx.Tree.stamp(self.step_no, m)

    def target(self, u: int, t: int) -> str:
        return os.path.join(f"u{u % self.nunits}", MEMBERS[self.fam][t])

    def extra(self, u: int, e: int) -> str:
        return os.path.join(f"u{u % self.nunits}", EXTRAS[e])

    # ------------------------------------------------------------ mutations
    def mutate(self, op: list) -> None:
        name = op[0]
        done = False
        if name == "del":
            done = self.tree.remove(self.target(op[1], op[2]))
        elif name == "trunc":
            done = self.tree.truncate(self.target(op[1], op[2]), 0, self.t(op[3]))
        elif name == "rewrite":
            self.tree.write(self.target(op[1], op[2]), op[3], self.t(op[4]))
            done = True
        elif name == "same":
            done = self.tree.recreate_same(self.target(op[1], op[2]), self.t(op[3]))
        elif name == "touch":
            if self.tree.stat(self.target(op[1], op[2])) is not None:
                self.tree.touch(self.target(op[1], op[2]), self.t(op[3]))
                done = True
        elif name == "samestat":
            done = self.tree.same_stat_rewrite(self.target(op[1], op[2]))
        elif name == "add":
            self.tree.add_member(self.extra(op[1], op[2]), op[3], self.t(op[4]))
            done = True
        elif name == "deladd":
            done = self.tree.remove_member(self.extra(op[1], op[2]))
        elif name == "rmtree":
            done = self.tree.rmtree(f"u{op[1] % self.nunits}")
        else:
            raise HarnessError(f"unknown op {op}")
        if done:
            self.labels.add(f"mut:{name}")
            if self.recorded:
                self.mutated_since_run = True

    # ------------------------------------------------------------ run
    def run(self, variant: int) -> None:
        T_ = tasks()
        K = self.K
        rec = self.recorded.get(variant)
        cur = self.tree.snapshot()
        if rec is None:
            expect, change = 1, "first-run"
        else:
            valid = scope_view(self.kind, self.fam, self.nunits, rec) == scope_view(self.kind, self.fam, self.nunits, cur)
            expect = 0 if valid else 1
            change = change_class(self.fam, self.nunits, rec, cur)
            if self.mutated_since_run:
                self.nontrivial = True
            self.labels.add(f"run-after:{change}:{'valid' if valid else 'invalid'}")
        sched = C.new_scheduler(backend=self.backend)
        ctl = C.Ctl()
        ctl.attach(sched)
        case = self.case
        expr = T_["consume"](T_["make"](K, self.root, self.nunits, self.shape, variant, case["salt"], case["api"]),
                             self.root)
        try:
            result = sched.run(expr)
        except (Violation, StopCheck, HarnessError):
            raise
        except (C.Quiescent, C.StepBudget) as e:
            raise HarnessError(f"controlled scheduler: {e!r}") from e
        except Exception as e:  # noqa: BLE001 - (a): nothing may escape run
            state = "first-run" if rec is None else {"deleted": "deleted-output", "none": "unchanged-output",
                                                     "unrelated": "unchanged-output"}.get(change, "altered-output")
            self.defect(f"run-raises:{K}:{state}",
                        f"Scheduler.run raised {type(e).__name__}: {str(e)[:200]} with the recorded {K} output "
                        f"{change} (shape {self.shape}); expected the task to re-execute")
            self.mutated_since_run = False
            return
        calls = ctl.calls.get("vf_c04.make", 0)
        ran_consume = ctl.calls.get("vf_c04.consume", 0)
        self.mutated_since_run = False
        after = self.tree.snapshot()
        if calls >= 1:
            self.recorded[variant] = after
        # (b)
        if calls > 1:
            self.defect(f"multiple-runs:{K}", f"make executed {calls} times in one run")
        elif expect == 1 and calls == 0:
            if rec is None:
                self.defect(f"first-run-not-executed:{K}", "make was not executed although nothing was recorded")
            else:
                self.defect(f"not-rerun:{K}:{change}",
                            f"recorded {K} output changed ({change}) but make was not re-executed: the cached "
                            f"result was replayed (shape {self.shape}); {diff_brief(rec, cur)}")
        elif expect == 0 and calls == 1:
            self.defect(f"rerun-though-valid:{K}:{change}",
                        f"make re-executed although the recorded {K} output is valid under the reference model "
                        f"(change since recording: {change}; shape {self.shape}); {diff_brief(rec, cur)}")
        # (c)
        if calls >= 1:
            for u in range(self.nunits):
                for rel in MEMBERS[self.fam]:
                    full = os.path.join(f"u{u}", rel)
                    want = content_for(case["salt"], u, rel, variant)
                    got = after.get(full)
                    if got is None or got[2] != want:
                        self.defect(f"output-content:{K}",
                                    f"after a producing run {full} is {None if got is None else got[2]!r}, "
                                    f"the task writes {want!r}")
        if ran_consume >= 1:
            want = sorted([rel, v[2].hex()] for rel, v in after.items())
            if result != want:
                self.defect(f"result-stale:{K}", f"consume ran but the run's result {str(result)[:200]} does not "
                            f"describe the current files {str(want)[:200]}")

    def run_embedded(self) -> None:
        """Second execution: wrap() builds K(unit 0) in its body and passes it to peek(). wrap's
        cached result expression holds that value, so it may be replayed only while the value is
        valid under the reference model."""
        how = self.case.get("how")
        if not how:
            return
        T_ = tasks()
        K = self.K
        cur = self.tree.snapshot()
        rec = getattr(self, "recorded_wrap", None)
        if rec is None:
            expect = 1
        else:
            valid = scope_view(self.kind, self.fam, 1, rec) == scope_view(self.kind, self.fam, 1, cur)
            expect = 0 if valid else 1
            self.labels.add(f"embedded:{how}:{'valid' if valid else 'invalid'}")
        sched = C.new_scheduler(backend=self.backend)
        ctl = C.Ctl()
        ctl.attach(sched)
        try:
            sched.run(T_["wrap"](K, self.root, how))
        except (Violation, StopCheck, HarnessError):
            raise
        except (C.Quiescent, C.StepBudget) as e:
            raise HarnessError(f"controlled scheduler: {e!r}") from e
        except Exception as e:  # noqa: BLE001
            self.defect(f"run-raises:{K}:embedded", f"Scheduler.run(wrap) raised {type(e).__name__}: {str(e)[:200]}")
            return
        calls = ctl.calls.get("vf_c04.wrap", 0)
        if calls >= 1:
            self.recorded_wrap = cur
        if expect == 1 and calls == 0:
            self.defect(f"embedded-not-rerun:{K}:{how}",
                        f"a task whose cached result expression holds a {K} (passed to a child call, form '{how}') was "
                        f"replayed although that value is no longer valid; {diff_brief(rec or {}, cur)}")
        elif expect == 0 and calls >= 1 and self.kind != "stat":
            self.defect(f"embedded-rerun-though-valid:{K}:{how}",
                        f"a task whose cached result expression holds a valid {K} (form '{how}') was re-executed")

    def step(self, k: int, op: list) -> None:
        self.step_no = k
        if op[0] == "run":
            self.run(op[1])
            self.run_embedded()
        else:
            self.mutate(op)


def diff_brief(rec: dict, cur: dict) -> str:
    out = []
    for r in sorted(set(rec) | set(cur)):
        a, b = rec.get(r), cur.get(r)
        if a != b:
            out.append(f"{r}: {None if a is None else (a[0], a[1], a[2][:12])} -> "
                       f"{None if b is None else (b[0], b[1], b[2][:12])}")
    return "; ".join(out)[:400] or "no file differs"


def run_history(ctx: Ctx, case: dict, strict: bool, sink: list | None = None) -> None:
    w = World(ctx, case, strict)
    if sink is not None:
        sink.append(w)
    try:
        for k, op in enumerate(case["ops"]):
            w.step(k, list(op))
    finally:
        w.destroy()


def run_case(ctx: Ctx, case: dict) -> None:
    sink: list = []
    try:
        run_history(ctx, case, strict=False, sink=sink)
    finally:
        w = sink[0] if sink else None
        ctx.case(case, labels=sorted(w.labels) if w else [f"cls:{case['cls']}"],
                 nontrivial=bool(w and w.nontrivial))


def check(ctx: Ctx) -> None:
    n = ctx.n(22, 540)
    for cls in CLASSES:
        ctx.given(cases(cls, long=ctx.thorough), lambda c: run_case(ctx, c), n)


def replay(ctx: Ctx, case) -> None:
    case = dict(case)
    case["ops"] = [list(o) for o in case["ops"]]
    run_history(ctx, case, strict=True)
