"""C02 — cached executions return what an uncached run would return."""
from __future__ import annotations

import os

from hypothesis import strategies as st

from vf.core import Ctx, Violation
from vf.lab import codefam
from vf.lab import ctl as C
from vf.lab import dbx
from vf.lab import schedrun

ID = "C02"
LEVEL = "exploration"
RULE = (
    "Generated histories (<=10 steps, <=6 runs) over a generated program family: a root and 2-4 "
    "further tasks wired as a DAG (arithmetic, call another task and combine lazily, two callees, "
    "raise for some arguments, catch(child, ValueError, recover), read an input file passed as a "
    "File argument), some tasks versioned, all with default validity checking. Steps: edit a task body "
    "(new source), bump a version, revert a task to an earlier body/version, change the root "
    "argument, rewrite an input file (new content, strictly newer mtime), run. Oracle: after every "
    "run on the shared backend (under a generated completion schedule) the same program, code table "
    "and file state is run on a fresh backend: both must give the same value or the same error "
    "type. Task-function call counts of both are recorded (cached <= fresh is reported, not "
    "asserted). Non-trivial = >=2 runs, an edit/revert/file rewrite touching a task/file the program "
    "uses between two runs, and at least one cache hit observed (fewer function calls than fresh)."
)
ASSUMPTIONS = [
    "tasks are deterministic; a versioned task's behaviour changes only together with its version (docs/source/tasks.md)",
    "input files are rewritten with a distinct mtime (the property's quantifier)",
]
MANIFEST = {"technique": "model-based histories: shared backend vs fresh backend differential (Hypothesis, controlled executor)"}


def variant_strategy(i, n, versioned, shallow_ok=True):
    """Variants for int-task i in a family of n tasks (task n-1 is the parse task)."""
    callees = list(range(i + 1, n - 1))
    opts = [st.fixed_dictionaries({"k": st.just("arith"), "mul": st.integers(1, 3), "add": st.integers(0, 4)}),
            st.fixed_dictionaries({"k": st.just("raise_if"), "mod": st.integers(2, 4), "add": st.integers(0, 3)}),
            st.fixed_dictionaries({"k": st.just("readfile"), "callee": st.just(n - 1), "file": st.integers(0, 1), "kw": st.booleans()})]
    if callees:
        opts += [st.fixed_dictionaries({"k": st.just("call"), "callee": st.sampled_from(callees), "shift": st.integers(0, 2), "add": st.integers(0, 3)}),
                 st.fixed_dictionaries({"k": st.just("call"), "callee": st.sampled_from(callees), "shift": st.integers(0, 2), "add": st.integers(0, 3)}),
                 st.fixed_dictionaries({"k": st.just("catch"), "callee": st.sampled_from(callees), "add": st.integers(0, 3)})]
        if i > 0:
            # (not for the root: most histories should still produce a value)
            opts.append(st.fixed_dictionaries({"k": st.just("sub"), "callee": st.sampled_from(callees)}))
    if len(callees) >= 2:
        opts.append(st.fixed_dictionaries({"k": st.just("call2"), "callees": st.lists(st.sampled_from(callees), min_size=2, max_size=2)}))
        # both callees get the same argument: common calls beneath them are duplicates within the execution
        opts.append(st.fixed_dictionaries({"k": st.just("call2s"), "callees": st.lists(st.sampled_from(callees), min_size=2, max_size=2)}))
    return st.one_of(opts)


@st.composite
def cases(draw, shallow_prob=None):
    n = draw(st.integers(3, 5))
    versioned = [draw(st.integers(0, 3)) == 0 for _ in range(n)]
    # C02 is about DEFAULT caching (check_valid="full"); shallow validity deliberately skips the
    # validity of intermediate values (C03 covers it for code changes)
    shallow = [shallow_prob is not None and draw(st.integers(0, shallow_prob)) == 0 for _ in range(n)]
    vercount = [1] * n

    def mk(i):
        if i == n - 1:
            v = {"k": "parse", "add": draw(st.integers(0, 3))}
        else:
            v = dict(draw(variant_strategy(i, n, versioned[i])))
        if versioned[i]:
            v["ver"] = f"v{vercount[i]}"
        if shallow[i]:
            v["opts"] = {"check_valid": "shallow"}
        return v

    init = [mk(i) for i in range(n)]
    # make sure the root reaches something
    if init[0]["k"] in ("arith", "raise_if") and n > 3:
        init[0] = {**{k: v for k, v in init[0].items() if k in ("ver", "opts")}, "k": "call", "callee": 1, "shift": 0, "add": 1}
    hist = [[v] for v in init]
    ops = []
    nruns = 0
    mt = 1
    for _ in range(draw(st.integers(2, 10))):
        c = draw(st.sampled_from(["run", "run", "edit", "edit", "revert", "arg", "file", "bump"]))
        if c == "run":
            ops.append(["run", draw(st.lists(st.integers(0, 3), max_size=12))])
            nruns += 1
        elif c in ("edit", "bump"):
            i = draw(st.integers(0, n - 1))
            if versioned[i]:
                vercount[i] += 1           # a versioned task only changes together with its version
            v = mk(i)
            hist[i].append(v)
            ops.append(["install", i, v])
        elif c == "revert":
            i = draw(st.integers(0, n - 1))
            v = hist[i][draw(st.integers(0, len(hist[i]) - 1))]
            ops.append(["install", i, v])
        elif c == "arg":
            ops.append(["arg", draw(st.integers(0, 5))])
        else:
            mt += 1
            ops.append(["file", draw(st.integers(0, 1)), draw(st.integers(0, 30)), mt])
        if nruns >= 6:
            break
    if not ops or ops[-1][0] != "run":
        ops.append(["run", []])
    if draw(st.integers(0, 2)) == 0:
        # file focus: some task reads input file 0 and the file is rewritten between two runs
        i = draw(st.integers(0, n - 2))
        keep = {k: v for k, v in init[i].items() if k in ("ver", "opts")}
        init[i] = {**keep, "k": "readfile", "callee": n - 1, "file": 0, "kw": draw(st.booleans())}
        if i > 0:
            keep0 = {k: v for k, v in init[0].items() if k in ("ver", "opts")}
            init[0] = {**keep0, "k": "call", "callee": i, "shift": 0, "add": 1}
        mt += 1
        ops = [["run", []], ["file", 0, draw(st.integers(31, 40)), mt], ["run", draw(st.lists(st.integers(0, 3), max_size=6))]] + \
            [o for o in ops if not (o[0] == "install" and o[1] in (0, i))][:6]
        if ops[-1][0] != "run":
            ops.append(["run", []])
    arg = draw(st.integers(0, 5))
    if draw(st.integers(0, 3)) == 0 and n >= 4:
        # catch focus: the caught call SUCCEEDS in the first run and is then edited so that it
        # raises (the other direction, recover first, is the open catch finding)
        arg = draw(st.integers(1, 5))
        m_ok = draw(st.sampled_from([m for m in (2, 3, 4, 7) if arg % m != 0]))
        m_bad = draw(st.sampled_from([m for m in (1, 2, 3, 4, 5) if arg % m == 0]))
        keep0 = {k: v for k, v in init[0].items() if k in ("ver",)}
        init[0] = {**keep0, "k": "catch", "callee": 1, "add": draw(st.integers(0, 3))}
        keep1 = {k: v for k, v in init[1].items() if k in ("ver",)}
        init[1] = {**keep1, "k": "raise_if", "mod": m_ok, "add": draw(st.integers(0, 3))}
        bad = {**keep1, "k": "raise_if", "mod": m_bad, "add": init[1]["add"]}
        if "ver" in bad:
            bad["ver"] = bad["ver"] + "b"
        tail = [o for o in ops if not (o[0] in ("install",) and o[1] in (0, 1)) and o[0] != "arg"][:4]
        ops = [["run", []], ["install", 1, bad], ["run", draw(st.lists(st.integers(0, 3), max_size=6))]] + tail
        if ops[-1][0] != "run":
            ops.append(["run", []])
    return {"n": n, "init": init, "files": [draw(st.integers(0, 9)), draw(st.integers(0, 9))], "arg": arg, "ops": ops}


def write_file(path, content, mtime_step):
    with open(path, "w") as f:
        f.write(str(content))
    t = 1_000_000_000 + mtime_step * 10
    os.utime(path, (t, t))


def outcome(r):
    if r.kind == "ok":
        return ("ok", r.payload)
    if r.kind == "err":
        return ("err", type(r.payload).__name__)
    return (r.kind, str(r.payload))


def run_history(ctx: Ctx, case, dryrun_hook=None, compare=True):
    d = ctx.fresh_dir("c02")
    paths = [os.path.join(d, "in0.txt"), os.path.join(d, "in1.txt")]
    for p, c in zip(paths, case["files"]):
        write_file(p, c, 1)
    fam = codefam.Family(case["n"], paths)
    fam.install_all(case["init"])
    backend = dbx.fresh_backend()
    arg = case["arg"]
    info = {"runs": 0, "cache_hits": 0, "relevant_change": False, "pending_change": False}
    edited: set = set()
    try:
        for op in case["ops"]:
            if op[0] == "install":
                fam.install(op[1], op[2])
                if info["runs"]:
                    edited.add(op[1])
                if op[1] in fam.uses():
                    info["pending_change"] = True
            elif op[0] == "arg":
                arg = op[1]
            elif op[0] == "file":
                write_file(paths[op[1]], op[2], op[3])
                info["pending_change"] = True
            elif op[0] == "run":
                if dryrun_hook is not None:
                    dryrun_hook(fam, backend, arg, op)
                fam.calls.clear()
                r = schedrun.run_program(None, decisions=op[1], expr=fam.root_expr(arg), backend=backend)
                shared_calls = sum(fam.calls.values())
                if r.kind in ("quiescent", "budget"):
                    raise Violation("stuck", f"shared-backend run did not terminate: {r.payload}", case)
                fam.calls.clear()
                fresh = schedrun.run_program(None, decisions=[], expr=fam.root_expr(arg))
                fresh_calls = sum(fam.calls.values())
                a, b = outcome(r), outcome(fresh)
                info["runs"] += 1
                if shared_calls < fresh_calls:
                    info["cache_hits"] += 1
                    if info["pending_change"] and info["runs"] >= 2:
                        info["relevant_change"] = True
                info["pending_change"] = False
                if a != b and compare:
                    kinds = sorted({v["k"] for v in fam.variants})
                    under_catch = set()
                    for v in fam.variants:
                        if v["k"] == "catch":
                            under_catch |= fam.uses(v["callee"])
                    # the open finding is a stale *recovery value* (the cached recover expression is
                    # replayed): the shared backend then returns a value. A shared-backend *error*
                    # where a fresh backend recovers is something else and is never masked.
                    if edited & under_catch and a[0] == "ok":
                        raise Violation("catch-recovery-replayed:subtree-edit", f"run {info['runs']} (arg {arg}): shared backend gave {a}, "
                                        f"a fresh backend gives {b}: a task beneath a catch() was changed after the catch had "
                                        f"recovered once; the cached recover expression is replayed without re-evaluating the "
                                        f"caught expression (edited tasks {sorted(edited)}, under catch {sorted(under_catch)})", case)
                    raise Violation(f"cached-differs:{a[0]}-vs-{b[0]}", f"run {info['runs']} (arg {arg}): shared backend gave {a}, "
                                    f"a fresh backend gives {b}; task kinds {kinds}; calls {shared_calls} vs {fresh_calls}", case)
    finally:
        dbx.discard_backend(backend)
    return info


def run_case(ctx: Ctx, case) -> None:
    info = None
    try:
        info = run_history(ctx, case)
    finally:
        labels = []
        nt = False
        if info:
            labels = [f"runs:{min(info['runs'], 5)}", "cache-hit" if info["cache_hits"] else "no-cache-hit",
                      "hit-after-relevant-change" if info["relevant_change"] else "no-hit-after-change"]
            nt = info["runs"] >= 2 and info["relevant_change"]
        kinds = {v["k"] for v in case["init"]}
        ctx.case(case, labels=labels + [f"kind:{k}" for k in sorted(kinds)], nontrivial=nt)


def check(ctx: Ctx) -> None:
    C.quiet_logs()
    ctx.given(cases(), lambda c: run_case(ctx, c), ctx.n(110, 2400))


def replay(ctx: Ctx, case) -> None:
    C.quiet_logs()
    run_history(ctx, case)
