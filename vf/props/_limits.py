"""Shared generator / runner for the resource-limit properties (C08, C09)."""
from __future__ import annotations

from hypothesis import strategies as st

from vf.lab import progs as P
from vf.lab import schedrun

RES = ("r1", "r2", "r3")
ALLOW = ["lit", "var", "task", "task", "ptask", "op", "list", "tuple", "cond", "seq", "catch", "catch_all", "map",
         "apply", "let", "throw", "div0", "boom", "raise_now_task", "getitem", "dict"]


@st.composite
def contended(draw):
    """Programs built for contention: several sibling jobs demanding the same resources, nested
    limited jobs, failures, rejections before the executor, and exact duplicates."""
    uniq = [0]

    def lim():
        names = draw(st.lists(st.sampled_from(RES), min_size=1, max_size=2, unique=True))
        if draw(st.booleans()):
            return names
        return {n: draw(st.integers(1, 2)) for n in names}

    def leaf():
        c = draw(st.integers(0, 6))
        if c <= 2:
            return ["lit", ["int", draw(st.integers(0, 3))]]
        if c == 3:
            return ["throw", draw(st.sampled_from(P.ERRK)), "e1"]
        if c == 4:
            return ["list", [["lit", ["int", 1]], ["raise_now", "ValueError", "now"]]]
        if c == 5:
            return ["op", "add", ["task", ["lit", ["int", 1]], {}, {"limits": lim()}], ["lit", ["int", 1]]]
        return ["list", [["task", ["lit", ["int", draw(st.integers(0, 1))]], {}, {"limits": lim()}] for _ in range(2)]]

    def job():
        o = {}
        if draw(st.integers(0, 4)) > 0:
            o["limits"] = lim()
        body = leaf()
        if draw(st.integers(0, 7)) == 0:
            o["executor"] = "nope"
            uniq[0] += 1
            body = ["lit", ["int", 1000 + uniq[0]]]     # unique: no twin call to share an outcome with
        j = ["task", body, {}, o]
        if draw(st.integers(0, 3)) == 0:
            j = ["catch", j, ["Exception"], ["lit", ["int", -1]], {}]
        return j

    jobs = [job() for _ in range(draw(st.integers(2, 5)))]
    if draw(st.integers(0, 2)) == 0:
        r = draw(st.sampled_from(RES))
        uniq[0] += 1
        jobs = [["task", ["lit", ["int", 2000 + uniq[0]]], {}, {"limits": [r]}],
                ["task", ["lit", ["int", 2100 + uniq[0]]], {}, {}],
                ["task", ["lit", ["int", 2200 + uniq[0]]], {}, {"limits": [r]}],
                ["task", ["lit", ["int", 2300 + uniq[0]]], {}, {"limits": {r: 1}}]] + jobs[:2]
    if draw(st.booleans()):
        jobs.append(jobs[draw(st.integers(0, len(jobs) - 1))])     # exact duplicate => CSE
    shape = draw(st.sampled_from(["list", "catch_all", "seq"]))
    if draw(st.integers(0, 3)) == 0:
        # a failing limited call and an equivalent call written differently (a hash-neutral option
        # makes it another expression, hence another job) queue up for one unit together with other
        # jobs: the twin is answered from the first one's recorded failure while jobs wait behind it
        r = draw(st.sampled_from(RES))
        uniq[0] += 1
        fail = draw(st.sampled_from([["throw", "ValueError", "e1"], ["apply", "boom", [["lit", ["int", 1]]]],
                                     ["list", [["lit", ["int", 1]], ["raise_now", "KeyError", "now"]]]]))
        okj = lambda v: ["task", ["lit", ["int", v + uniq[0]]], {}, {"limits": [r]}]  # noqa: E731
        twins = [["task", fail, {}, {"limits": [r]}], ["task", fail, {}, {"limits": [r], "tags": [["branch", "b"]]}]]
        jobs = [okj(3000)] + twins + [okj(3100)] + (jobs[:1] if draw(st.booleans()) else [])
        shape = draw(st.sampled_from(["catch_all", "catch_all", "list"]))
    if shape == "catch_all":
        return ["catch_all", jobs, [], None]
    if shape == "seq":
        return ["list", [["seq", jobs[:2]], ["list", jobs[2:]]]]
    return ["list", jobs]


@st.composite
def cases(draw, feasible_only=False):
    if draw(st.integers(0, 3)) == 0:
        prog = draw(P.programs(max_depth=3, modes=("node",), errors=True, limits=RES, allow=ALLOW, bad_exec=True))
    else:
        prog = draw(contended())
    # configured limits: r1 always configured, r2 sometimes, r3 never (defaults to 1)
    cfg = {"r1": draw(st.integers(1, 3))}
    if draw(st.booleans()):
        cfg["r2"] = draw(st.integers(1, 2))
    if feasible_only:
        prog = clamp(prog, cfg)
    fine = draw(st.booleans())
    if fine and draw(st.booleans()):
        # bursts: several jobs report back before the scheduler processes the next event
        decisions = draw(st.lists(st.sampled_from([0, 1, 1, 1, 2]), max_size=40))
    else:
        decisions = draw(st.lists(st.integers(0, 4), max_size=40))
    # wrap so that several limited jobs are alive at once
    return {"prog": prog, "limits": cfg, "decisions": decisions, "fine": fine}


def clamp(ast, cfg):
    """Make every job's demand feasible: <= configured limit (1 if unconfigured)."""
    if isinstance(ast, list):
        if ast and ast[0] in ("task", "ptask") and isinstance(ast[3], dict) and isinstance(ast[3].get("limits"), dict):
            o = dict(ast[3])
            o["limits"] = {k: min(v, cfg.get(k, 1)) for k, v in o["limits"].items()}
            return [ast[0], clamp(ast[1], cfg), {k: clamp(v, cfg) for k, v in ast[2].items()}, o]
        return [clamp(a, cfg) for a in ast]
    if isinstance(ast, dict):
        return {k: clamp(v, cfg) for k, v in ast.items()}
    return ast


def demands(ast, out=None):
    out = [] if out is None else out
    if isinstance(ast, list):
        if ast and ast[0] in ("task", "ptask") and isinstance(ast[3], dict) and "limits" in ast[3]:
            lim = ast[3]["limits"]
            out.append({n: 1 for n in lim} if isinstance(lim, list) else dict(lim))
        for a in ast:
            demands(a, out)
    elif isinstance(ast, dict):
        for v in ast.values():
            demands(v, out)
    return out


def feasible(case) -> bool:
    cfg = case["limits"]
    return all(v <= cfg.get(k, 1) for d in demands(case["prog"]) for k, v in d.items())


def execute(case):
    return schedrun.run_program(case["prog"], decisions=case["decisions"], limits=case["limits"], fine=case["fine"])
