"""C31 — value storage location (database row / value store / file cache) is transparent."""
from __future__ import annotations

import os
import shutil
import sys

from hypothesis import strategies as st

from vf.core import Ctx, Violation, redun_frame
from vf.lab import ctl as C
from vf.lab import dbx
from vf.lab import values as V

ID = "C31"
LEVEL = "exploration"
RULE = (
    "Hypothesis-generated cases: 1-3 values (L1 value specs, optionally padded so that serialised "
    "sizes range from ~5 bytes to ~4 KB, and FileCache-typed Blob values whose bytes live in a file "
    "under base_path), a backend with or without a value store, value_store_min_size = "
    "sys.getsizeof(serialised value 0) + delta and max_value_size = len(serialised value k) + delta "
    "(deltas in -40..40 incl. 0, +-1; or the defaults), and a history (<=10 ops) of record_value, "
    "record again, get_value, _get_value_data on the row, delete the offloaded bytes (value-store "
    "file / file-cache file), close and reopen the backend with the same configuration. Oracle: a "
    "reference table keyed by the returned hash: while the bytes are present get_value returns "
    "(v, True) with v re-hashing (serialize + get_hash(data), the recipe record_value uses) to the "
    "hash of the value deserialised directly from the serialised bytes without any storage (equal "
    "to the key except for values whose pickle is not canonical under object sharing, labelled "
    "pickle-noncanonical-value), and _get_value_data returns exactly the serialised bytes, wherever "
    "they live; a value "
    "whose serialisation is longer than max_value_size makes record_value raise and leaves no Value "
    "row, one of length <= max is accepted; after the offloaded bytes were deleted get_value returns "
    "exactly (None, False) and _get_value_data has_value False, until the value is recorded again. "
    "Non-trivial = a serialised size within 40 bytes of a threshold, a deletion that removed "
    "offloaded bytes, or a second record_value of the same key."
)
ASSUMPTIONS = [
    "'same hash' = the hash computed the way record_value computes the key (get_hash(data=serialize()))",
    "one configuration per history (thresholds do not change between record and read)",
    "local value store / file cache paths only",
]
MANIFEST = {"technique": "model-based testing: record/read/delete histories vs. reference table (Hypothesis)"}

DELTAS = st.one_of(st.sampled_from([0, 1, -1, 2, -2]), st.integers(-40, 40))

value_item = st.one_of(
    st.tuples(V.value_specs(max_leaves=6), st.sampled_from([0, 0, 0, 20, 60, 300, 4000])).map(
        lambda t: {"spec": t[0], "pad": t[1]}),
    st.tuples(st.text(st.sampled_from("abc"), max_size=4), st.sampled_from([0, 10, 100, 3000])).map(
        lambda t: {"blob": t[0], "pad": t[1]}),
)


@st.composite
def cases(draw):
    vals = draw(st.lists(value_item, min_size=1, max_size=3))
    n = len(vals)
    i = st.integers(0, n - 1)
    op = st.one_of(
        st.tuples(st.just("record"), i), st.tuples(st.just("record"), i),
        st.tuples(st.just("get"), i), st.tuples(st.just("get"), i),
        st.tuples(st.just("data"), i),
        st.tuples(st.just("delete"), i), st.tuples(st.just("delete_fc"), i),
        st.tuples(st.just("reopen")),
    ).map(list)
    return {
        "vals": vals,
        "store": draw(st.sampled_from([True, True, False])),
        "min_delta": draw(st.one_of(st.none(), DELTAS, st.just(-10**6))),
        "max": draw(st.one_of(st.none(), st.tuples(i, DELTAS).map(list))),
        "ops": draw(st.lists(op, min_size=1, max_size=10)),
    }


def build_value(item):
    if "blob" in item:
        import vf_c31types as T31

        return T31.Blob(item["blob"] + "#" * item["pad"])
    v = V.build(item["spec"])
    return [v, "p" * item["pad"]] if item["pad"] else v


def walk_files(root: str) -> dict:
    out = {}
    for dirpath, _d, files in os.walk(root):
        for name in files:
            full = os.path.join(dirpath, name)
            out[os.path.relpath(full, root)] = full
    return out


class World:
    def __init__(self, ctx: Ctx, case: dict):
        import vf_c31types as T31
        from redun.value import get_type_registry

        C.quiet_logs()
        self.ctx = ctx
        self.case = case
        self.reg = get_type_registry()
        self.dir = ctx.fresh_dir("c31")
        self.store_dir = os.path.join(self.dir, "store")
        self.fc_dir = os.path.join(self.dir, "fc")
        os.makedirs(self.fc_dir)
        T31.BlobType.base_path = self.fc_dir
        self.values = [build_value(it) for it in case["vals"]]
        self.is_fc = ["blob" in it for it in case["vals"]]
        # serialise once, up front (FileCache.serialize writes its file as a side effect)
        self.data = [self.reg.serialize(v) for v in self.values]
        # storage-free reference: the hash of the value rebuilt directly from those bytes. (For most
        # values this is the key itself; pickle is not canonical under object sharing, e.g.
        # Rec(a=0, b=frozenset({'a'})) re-pickles differently after a round trip — that belongs to
        # C16, not to the storage location, so the reference is the directly deserialised value.)
        self.ref_hash = []
        for v, d in zip(self.values, self.data):
            ref = self.reg.deserialize(self.reg.get_type_name(type(v)), d)
            self.ref_hash.append(self.rehash(ref))
        for f in walk_files(self.fc_dir).values():
            os.remove(f)
        self.config = {"config_dir": self.dir}
        if case["store"]:
            self.config["value_store_path"] = self.store_dir
            if case["min_delta"] is not None:
                self.config["value_store_min_size"] = str(max(0, sys.getsizeof(self.data[0]) + case["min_delta"]))
        self.max = None
        if case["max"] is not None:
            k, d = case["max"]
            self.max = max(1, len(self.data[k % len(self.data)]) + d)
            self.config["max_value_size"] = str(self.max)
        self.backend = dbx.fresh_backend(self.config)
        self.db_path = self.backend.db_uri[len("sqlite:///"):]
        self.table: dict = {}      # key -> {"i": index, "records": n}
        self.keys: dict = {}       # value index -> key
        self.nontrivial = False
        self.labels = {"store:on" if case["store"] else "store:off"}
        lim_min = int(self.config.get("value_store_min_size", 0)) if "value_store_min_size" in self.config else None
        for d in self.data:
            if self.max is not None and abs(len(d) - self.max) <= 40:
                self.nontrivial = True
                self.labels.add("near:max_value_size")
            if case["store"] and lim_min is not None and abs(sys.getsizeof(d) - lim_min) <= 40:
                self.nontrivial = True
                self.labels.add("near:value_store_min_size")

    def destroy(self) -> None:
        try:
            dbx.discard_backend(self.backend)
        finally:
            shutil.rmtree(self.dir, ignore_errors=True)

    # ------------------------------------------------------------ observation helpers
    def store_file(self, key: str):
        """Path of the value-store file holding `key`, found by walking the store directory."""
        if not os.path.isdir(self.store_dir):
            return None
        for rel, full in walk_files(self.store_dir).items():
            if rel.replace(os.sep, "") == key:
                return full
        return None

    def fc_file(self, i: int):
        path = self.data[i].decode("utf8")
        return path if os.path.isfile(path) else None

    def row(self, key: str):
        from redun.backends.db import Value as ValueRow

        return self.backend.session.query(ValueRow).filter_by(value_hash=key).one_or_none()

    def rehash(self, v) -> str:
        vi = self.reg.get_value(v)
        return vi.get_hash(data=vi.serialize())

    def where(self, key: str, i: int) -> str:
        if self.is_fc[i]:
            return "filecache"
        return "store" if self.table.get(key, {}).get("offloaded") else "db"

    def fail(self, key: str, msg: str) -> None:
        raise Violation(key, msg, self.case)

    # ------------------------------------------------------------ ops
    def op_record(self, i: int) -> None:
        v, data = self.values[i], self.data[i]
        too_large = self.max is not None and len(data) > self.max
        if self.max is not None:
            self.labels.add("record:oversize" if too_large else "record:within-max")
        try:
            key = self.backend.record_value(v)
        except Exception as e:  # noqa: BLE001
            if redun_frame(e) is None:
                raise
            if not too_large:
                edge = "at-limit" if self.max is not None and len(data) == self.max else "below-limit"
                if self.max is None:
                    edge = "no-limit"
                self.fail(f"record-raises:{edge}", f"record_value raised {type(e).__name__}: {str(e)[:200]} for a value "
                          f"of {len(data)} serialised bytes with max_value_size={self.max}")
            want = self.rehash(v) if not self.is_fc[i] else None
            if self.backend.session is not None:
                self.backend.session.rollback()
            rows = [k for k in ([want] if want else []) if self.row(k) is not None]
            if rows:
                self.fail("oversize-row-left", f"record_value rejected a {len(data)}-byte value (max {self.max}) "
                          f"but a Value row {rows[0][:8]} exists")
            return
        if too_large:
            self.fail("oversize-accepted", f"record_value accepted a value of {len(data)} serialised bytes although "
                      f"max_value_size={self.max} (key {key[:8]})")
        ent = self.table.get(key)
        if ent is None:
            ent = self.table[key] = {"i": i, "records": 0, "offloaded": False}
        ent["records"] += 1
        if ent["records"] >= 2:
            self.nontrivial = True
            self.labels.add("recorded-twice")
        ent["offloaded"] = self.store_file(key) is not None
        self.labels.add(f"bytes-in:{self.where(key, i)}")
        self.keys[i] = key
        row = self.row(key)
        if row is None:
            self.fail("record-no-row", f"record_value returned {key[:8]} but there is no Value row")

    def present(self, key: str, i: int) -> bool:
        """Reference: are the bytes needed to rebuild the value there?"""
        ent = self.table[key]
        if ent["offloaded"] and self.store_file(key) is None:
            return False
        if self.is_fc[i] and self.fc_file(i) is None:
            return False
        return True

    def op_get(self, i: int) -> None:
        key = self.keys.get(i)
        if key is None:
            # never recorded: look the would-be key up
            if self.is_fc[i]:
                return
            key = self.rehash(self.values[i])
            if key in self.table:
                self.keys[i] = key
            else:
                with self.ctx.no_raise("get_value(unrecorded)", self.case):
                    got = self.backend.get_value(key)
                if tuple(got) != (None, False):
                    self.fail("unrecorded-present", f"get_value of a never recorded hash returned {got!r:.100}")
                return
        where = self.where(key, i)
        present = self.present(key, i)
        state = "present" if present else "missing"
        with self.ctx.no_raise(f"get_value({where},{state})", self.case):
            val, has = self.backend.get_value(key)
        self.labels.add(f"get:{where}:{state}")
        if not present:
            if has or val is not None:
                self.fail(f"missing-bytes-not-absent:{where}",
                          f"the offloaded bytes of {key[:8]} were deleted but get_value returned ({val!r:.80}, {has})")
            return
        if not has:
            self.fail(f"readback-absent:{where}", f"value {key[:8]} was recorded and its bytes are present ({where}) "
                      f"but get_value returned ({val!r:.60}, {has})")
        with self.ctx.no_raise("rehash", self.case):
            h = self.rehash(val)
        want = self.ref_hash[self.table[key]["i"]]
        if want != key:
            self.labels.add("pickle-noncanonical-value")
        if h != want:
            self.fail(f"readback-hash:{where}", f"value recorded under {key[:8]} reads back ({where}) as "
                      f"{val!r:.80} which hashes to {h[:8]}; deserialising the recorded bytes directly gives "
                      f"{want[:8]}; original {self.values[i]!r:.80}")

    def op_data(self, i: int) -> None:
        key = self.keys.get(i)
        if key is None:
            return
        where = self.where(key, i)
        row = self.row(key)
        if row is None:
            self.fail("row-vanished", f"Value row {key[:8]} no longer exists")
        present_store = not (self.table[key]["offloaded"] and self.store_file(key) is None)
        with self.ctx.no_raise(f"_get_value_data({where})", self.case):
            data, has = self.backend._get_value_data(row)
        if not present_store:
            if has:
                self.fail("missing-bytes-not-absent:store-data",
                          f"value-store bytes of {key[:8]} were deleted but _get_value_data returned has_value=True "
                          f"({len(data)} bytes)")
            return
        if not has or bytes(data) != self.data[i]:
            self.fail(f"data-mismatch:{where}", f"_get_value_data({key[:8]}) returned has_value={has} and "
                      f"{len(data)} bytes; the value serialises to {len(self.data[i])} bytes")

    def op_delete(self, i: int) -> None:
        key = self.keys.get(i)
        if key is None:
            return
        f = self.store_file(key)
        if f is not None:
            os.remove(f)
            self.nontrivial = True
            self.labels.add("deleted:store-bytes")

    def op_delete_fc(self, i: int) -> None:
        if not self.is_fc[i] or i not in self.keys:
            return
        f = self.fc_file(i)
        if f is not None:
            os.remove(f)
            self.nontrivial = True
            self.labels.add("deleted:filecache-bytes")

    def op_reopen(self) -> None:
        dbx.close_backend(self.backend)
        self.backend = dbx.open_backend(self.db_path, self.config)
        self.labels.add("reopen")

    def step(self, op: list) -> None:
        getattr(self, f"op_{op[0]}")(*op[1:])

    def final(self) -> None:
        for i in sorted(self.keys):
            self.op_get(i)


def run_history(ctx: Ctx, case: dict, sink: list | None = None) -> None:
    w = World(ctx, case)
    if sink is not None:
        sink.append(w)
    try:
        for op in case["ops"]:
            w.step(list(op))
        w.final()
    finally:
        w.destroy()


def run_case(ctx: Ctx, case: dict) -> None:
    sink: list = []
    try:
        run_history(ctx, case, sink)
    finally:
        w = sink[0] if sink else None
        ctx.case(case, labels=sorted(w.labels) if w else [], nontrivial=bool(w and w.nontrivial))


def check(ctx: Ctx) -> None:
    ctx.given(cases(), lambda c: run_case(ctx, c), ctx.n(400, 16000))


def replay(ctx: Ctx, case) -> None:
    case = dict(case)
    case["ops"] = [list(o) for o in case["ops"]]
    run_history(ctx, case)
