"""C37 — the task registry stays consistent under define / redefine / wrap histories."""
from __future__ import annotations

import sys

from hypothesis import strategies as st

from vf.core import Ctx, Violation

ID = "C37"
LEVEL = "exploration"
RULE = (
    "Hypothesis-generated operation lists (<= 14 ops) over 3 names x 4 namespaces ('', 'ns', 'w1', 'ns.w1' -- "
    "chosen so that hidden names can collide with directly defined ones), 3 bodies and wrapper names w1/w2/"
    "default: define (Task(func, name, namespace, source) + registry.add; a repeated define is a redefinition "
    "with the same or a new body), wrap an existing task with a real wraps_task decorator (repeatedly, building "
    "chains; also addressed as 'the n-th registered name'), wrap a plain function (task created on the fly). Every case runs against a fresh TaskRegistry "
    "installed as redun.task._task_registry (restored afterwards). After every op: task_hashes == {t.hash for "
    "t in registry}; registry.get(t.fullname) is t for every task; registry.get(hash=h).hash == h for every "
    "current hash; the registered names and objects equal a reference model (dict with overwrite); for every "
    "intact wrapper chain the visible task keeps the original full name, is the object wraps_task returned, "
    "names its inner task in the wrapped_task option, and each hidden member lives at <namespace>.<wrapper "
    "names...>.<name> (wrapper name alone for an empty namespace). A chain that loses a member to a later "
    "definition keeps only the part below it; wrapping a wrapper that no longer heads an intact chain is "
    "skipped (semantics unspecified). Non-trivial = history with a "
    "redefinition and a wrap of an already wrapped task, or a rename that overwrites a registered task."
)
ASSUMPTIONS = [
    "Task.hash of a renamed (hidden) task is whatever the registry holds; the property compares the registry's "
    "hash set with the tasks' own hash attributes, not with recomputed hashes",
    "a wrap is 'simultaneous': all members of the chain move, then the wrapper is created (the implementation's "
    "inner-first order gives the same result for ladder-shaped chain names)",
]
MANIFEST = {"technique": "model-based testing: generated registry histories vs. reference dict (Hypothesis)"}

NAMES = ["a", "b", "fa"]
NAMESPACES = ["", "ns", "w1", "ns.w1"]
WRAPPERS = ["w1", "w2", None]

op = st.one_of(
    st.tuples(st.just("define"), st.sampled_from(NAMESPACES), st.sampled_from(NAMES), st.integers(0, 2)),
    st.tuples(st.just("define"), st.sampled_from(["", "ns"]), st.sampled_from(["a", "b"]), st.integers(0, 1)),
    st.tuples(st.just("wrap"), st.sampled_from(NAMESPACES), st.sampled_from(NAMES), st.sampled_from(WRAPPERS),
              st.integers(0, 1)),
    # wrap the n-th registered name (sorted), so that chains get deep and hidden members are hit too
    st.tuples(st.just("wrapnth"), st.integers(0, 11), st.sampled_from(WRAPPERS), st.integers(0, 1)),
    st.tuples(st.just("wrapnth"), st.integers(0, 11), st.sampled_from(WRAPPERS), st.integers(0, 1)),
    st.tuples(st.just("wrapfunc"), st.sampled_from(["fa", "fb"]), st.sampled_from(WRAPPERS), st.integers(0, 1)),
)
histories = st.lists(op, min_size=1, max_size=14).map(lambda ops: [list(o) for o in ops])


# real functions (wraps_task reads their source with inspect)
def _impl(x):
    return x


def fa(x):
    return x + 1


def fb(x):
    return x + 2


FUNCS = {"fa": fa, "fb": fb}


def _vfwrap(variant):
    def _vf_default_wrapper(inner_task):
        if variant:
            def do_wrap(*args, **kwargs):
                return inner_task.func(*args, **kwargs)
        else:
            def do_wrap(*args, **kwargs):
                return [inner_task.func(*args, **kwargs)]
        return do_wrap

    return _vf_default_wrapper


DEFAULT_WRAPPER_NAME = "_vf_default_wrapper"


def fullname(ns, name):
    return f"{ns}.{name}" if ns else name


def hidden_ns(ns, wname):
    return f"{ns}.{wname}" if ns else wname


class Model:
    """Reference: registered names -> task objects, plus the intact wrapper chains (visible task first)."""

    def __init__(self):
        self.names: dict = {}
        self.chains: list = []     # each: {"members": [task objs, visible first], "names": [expected full names]}
        self.wrappers: list = []   # every task object made by a wrap op (kept alive; compared by identity)

    def is_wrapper(self, obj) -> bool:
        return any(w is obj for w in self.wrappers)

    def locate(self, obj):
        for ch in self.chains:
            for i, m in enumerate(ch["members"]):
                if m is obj:
                    return ch, i
        return None, -1

    def displace(self, name, newobj) -> None:
        """names[name] = newobj; a chain that loses a member keeps only the part below it."""
        old = self.names.get(name)
        if old is not None and old is not newobj:
            ch, j = self.locate(old)
            if ch is not None:
                self.chains.remove(ch)
                if j + 1 < len(ch["members"]):
                    self.chains.append({"members": ch["members"][j + 1:], "names": ch["names"][j + 1:]})
        self.names[name] = newobj

    def head_chain(self, obj):
        """The intact chain headed by obj (splitting off the wrappers above it), a fresh single-member chain
        for a plain task, or None when obj is a wrapper whose chain is no longer intact."""
        ch, i = self.locate(obj)
        if ch is None:
            return None if self.is_wrapper(obj) else {"members": [obj], "names": None}
        self.chains.remove(ch)
        return {"members": ch["members"][i:], "names": ch["names"][i:]}


def check_invariants(ctx: Ctx, reg, model: Model, ops, k) -> None:
    o = ops[k]
    tasks = list(reg)
    hashes = reg.task_hashes
    own = {t.hash for t in tasks}
    if hashes != own:
        extra, missing = sorted(hashes - own), sorted(own - hashes)
        raise Violation("hash-set:" + ("stale" if extra else "missing") + f":after-{o[0]}",
                        f"after op {k} {o}: task_hashes has {len(extra)} hash(es) no registered task owns "
                        f"{[h[:8] for h in extra[:3]]} and lacks {[h[:8] for h in missing[:3]]}", ops)
    for t in tasks:
        got = reg.get(t.fullname)
        if got is not t:
            raise Violation(f"lookup-by-name:after-{o[0]}", f"after op {k} {o}: registry.get({t.fullname!r}) is "
                            f"{got!r}, but the registry iterates {t!r} under that full name", ops)
    for h in sorted(hashes):
        got = reg.get(hash=h)
        if got is None or got.hash != h:
            raise Violation(f"lookup-by-hash:after-{o[0]}", f"after op {k} {o}: registry.get(hash={h[:8]}) returned {got!r}", ops)
    # reference model: same names, same objects
    real_names = {t.fullname for t in tasks}
    if real_names != set(model.names) or len(tasks) != len(real_names):
        raise Violation(f"names:after-{o[0]}", f"after op {k} {o}: registered names {sorted(real_names)} (n={len(tasks)}), "
                        f"expected {sorted(model.names)}", ops)
    for name, obj in model.names.items():
        if reg.get(name) is not obj:
            raise Violation(f"identity:after-{o[0]}", f"after op {k} {o}: {name!r} holds {reg.get(name)!r}, expected {obj!r}", ops)
    # wrapper chains
    for ch in model.chains:
        mem, names = ch["members"], ch["names"]
        for i, (m, want) in enumerate(zip(mem, names)):
            role = "visible" if i == 0 else "hidden"
            if m.fullname != want or reg.get(want) is not m:
                raise Violation(f"wrap-{role}-name:depth{min(len(mem) - 1, 3)}",
                                f"after op {k} {o}: chain member {i} of {names[0]!r} should be registered as "
                                f"{want!r}; its fullname is {m.fullname!r} and that name holds {reg.get(want)!r}", ops)
            if i + 1 < len(mem):
                ref = m.get_task_option("wrapped_task")
                if ref != names[i + 1]:
                    raise Violation(f"wrap-reference:depth{min(len(mem) - 1, 3)}",
                                    f"after op {k} {o}: {want!r} refers to its inner task as {ref!r}, expected {names[i + 1]!r}", ops)


def interpret(ctx: Ctx, ops: list) -> dict:
    import redun  # noqa: F401
    from redun.task import Task, TaskRegistry, wraps_task

    RT = sys.modules["redun.task"]
    saved = RT._task_registry
    reg = TaskRegistry()
    RT._task_registry = reg
    model = Model()
    stats = {"redefine": 0, "rewrap": 0, "overwrite": 0, "skipped": 0, "depth": 0}
    try:
        for k, o in enumerate(ops):
            kind = o[0]
            if kind == "define":
                _, ns, name, body = o
                full = fullname(ns, name)
                if full in model.names:
                    stats["redefine"] += 1
                src = f"def {name}(x):\n    return x + {body}\n"
                with ctx.no_raise("Task() + registry.add", ops):
                    t = Task(_impl, name=name, namespace=ns, source=src)
                    reg.add(t)
                model.displace(full, t)
            elif kind in ("wrap", "wrapnth", "wrapfunc"):
                if kind == "wrapnth":
                    if not model.names:
                        stats["skipped"] += 1
                        continue
                    pick = sorted(model.names)[o[1] % len(model.names)]
                    ns, name = pick.rsplit(".", 1) if "." in pick else ("", pick)
                    o = ["wrap", ns, name, o[2], o[3]]
                    kind = "wrap"
                if kind == "wrapfunc":
                    _, fname, wname, variant = o
                    ns, name = "", fname
                    full = fname
                    target = FUNCS[fname]
                else:
                    _, ns, name, wname, variant = o
                    full = fullname(ns, name)
                    target = model.names.get(full)
                    if target is None or (model.locate(target)[0] is None and model.is_wrapper(target)):
                        # nothing to wrap / a wrapper whose chain a later definition overwrote (unspecified)
                        stats["skipped"] += 1
                        check_invariants(ctx, reg, model, ops, k)
                        continue
                deco = wraps_task(wrapper_name=wname)(_vfwrap(variant))
                with ctx.no_raise("wraps_task decorator", ops):
                    visible = deco(target)
                w = wname or DEFAULT_WRAPPER_NAME
                if kind == "wrapfunc":
                    # the lowest-level task was created on the fly under the function's own name, then hidden
                    hname = fullname(hidden_ns("", w), fname)
                    inner = reg.get(hname)
                    if inner is None or inner.func is not target:
                        raise Violation("wrap-hidden-name:on-the-fly", f"after op {k} {o}: the task created on the fly for "
                                        f"function {fname} is not registered as {hname!r} (found {inner!r})", ops)
                    model.displace(full, inner)
                    target = inner
                ch = model.head_chain(target)
                members = ch["members"]
                old_names = ch["names"] or [full]
                if len(members) > 1:
                    stats["rewrap"] += 1
                for n in old_names:
                    del model.names[n]
                new_names = []
                for n in old_names:
                    mns, mname = n.rsplit(".", 1) if "." in n else ("", n)
                    new_names.append(fullname(hidden_ns(mns, w), mname))
                for m, new in zip(reversed(members), reversed(new_names)):
                    if new in model.names:
                        stats["overwrite"] += 1
                    model.displace(new, m)
                model.displace(full, visible)
                model.wrappers.append(visible)
                model.chains.append({"members": [visible] + members, "names": [full] + new_names})
                stats["depth"] = max(stats["depth"], len(members))
            else:
                raise AssertionError(o)
            check_invariants(ctx, reg, model, ops, k)
    finally:
        RT._task_registry = saved
    return stats


def run_case(ctx: Ctx, ops: list) -> None:
    stats = {"redefine": 0, "rewrap": 0, "overwrite": 0, "skipped": 0, "depth": 0}
    try:
        stats = interpret(ctx, ops)
    finally:
        labels = [f"op:{k}" for k in sorted({o[0] for o in ops})]
        labels += [k for k in ("redefine", "rewrap", "overwrite", "skipped") if stats[k]]
        if stats["depth"]:
            labels.append(f"chain-depth:{min(stats['depth'], 4)}")
        ctx.case(ops, labels=labels, nontrivial=bool((stats["redefine"] and stats["rewrap"]) or stats["overwrite"]))


def check(ctx: Ctx) -> None:
    import redun  # noqa: F401

    RT = sys.modules["redun.task"]
    before = RT._task_registry
    n_before = len(list(before))
    ctx.given(histories, lambda ops: run_case(ctx, ops), ctx.n(3000, 160000))
    if RT._task_registry is not before or len(list(before)) != n_before:
        from vf.core import HarnessError

        raise HarnessError("C37 leaked tasks into (or replaced) the global task registry")


def replay(ctx: Ctx, case) -> None:
    interpret(ctx, [list(o) for o in case])
