"""C18 — expression identity (hash) matches the call it denotes; pickling preserves it."""
from __future__ import annotations

import copy

from hypothesis import strategies as st

from vf.core import Ctx, Violation
from vf.lab import values as V

ID = "C18"
LEVEL = "exploration"
RULE = (
    "Hypothesis-generated expression specs of the four kinds (task, scheduler-task, simple-operator, "
    "value) with generated names, L1 argument values (incl. nested expressions), keyword arguments, "
    "call-time option dicts and exported-option sets, each paired with a copy mutated in exactly one "
    "identity field (kind, name, one positional or keyword argument, argument order, keyword name, "
    "options, exported options) or in a neutral way (keyword order, rebuilt copy). Oracle: identity "
    "differs => hashes differ; neutral => hashes equal; pickle round trip preserves hash, argument "
    "hashes, options, exported options, length, and resets call_hash/_upstreams/_hash. Non-trivial = "
    "pair differing in exactly one identity field, or round trip of an expression with a nested "
    "expression argument and bookkeeping set."
)
ASSUMPTIONS = [
    "argument identity is the value hash computed by redun's type registry (C16 covers that hash itself)",
    "scheduler expressions are built as SchedulerTask.__call__ builds them (no exported options)",
]
MANIFEST = {"technique": "metamorphic pairs + pickle round trip (Hypothesis)"}

names = st.sampled_from(["ns.f", "ns.g", "f", "redun.cond", "redun.catch", "redun.seq", "add", "mul", "eq"])
opt_vals = st.one_of(st.integers(0, 3), st.sampled_from(["NONE", "CSE", "BACKEND", "shallow", "full", "batch"]),
                     st.booleans(), st.none(), st.lists(st.integers(0, 2), max_size=2))
opt_keys = st.sampled_from(["cache_scope", "check_valid", "executor", "memory", "limits", "cache"])
options = st.dictionaries(opt_keys, opt_vals, max_size=3)
exports = st.lists(opt_keys, max_size=2, unique=True)
arg_vals = V.value_specs(max_leaves=5)


def expr_specs(depth=2):
    leafish = arg_vals
    if depth > 0:
        leafish = st.one_of(arg_vals, arg_vals, st.deferred(lambda: expr_specs(depth - 1)))
    args = st.lists(leafish, max_size=3)
    kwargs = st.dictionaries(st.sampled_from(["a", "b", "c", "x"]), leafish, max_size=2)
    return st.one_of(
        st.tuples(st.just("task"), names, args, kwargs, options, exports).map(
            lambda t: {"k": "task", "name": t[1], "args": t[2], "kwargs": t[3], "opts": t[4], "exp": t[5]}),
        st.tuples(st.just("sched"), names, args, kwargs, options).map(
            lambda t: {"k": "sched", "name": t[1], "args": t[2], "kwargs": t[3], "opts": t[4], "exp": []}),
        st.tuples(st.just("simple"), names, args, kwargs).map(
            lambda t: {"k": "simple", "name": t[1], "args": t[2], "kwargs": t[3], "opts": {}, "exp": []}),
        st.tuples(st.sampled_from(["getitem", "getattr"]), leafish, st.sampled_from([["int", 0], ["str", "a"], ["int", 1]])).map(
            lambda t: {"k": "simple", "name": t[0], "args": [t[1], t[2]], "kwargs": {}, "opts": {}, "exp": []}),
        arg_vals.map(lambda v: {"k": "value", "v": v}),
    )


MUTS = ["kind", "name", "arg", "arg_order", "add_arg", "kwarg_val", "kwarg_key", "opts", "exp", "kw_order", "none"]


@st.composite
def cases(draw):
    e = draw(expr_specs())
    mut = draw(st.sampled_from(MUTS))
    return {"e": e, "mut": mut, "new_val": draw(arg_vals), "new_name": draw(names),
            "new_opt": [draw(opt_keys), draw(opt_vals)], "new_exp": draw(opt_keys), "i": draw(st.integers(0, 5))}


def is_expr_spec(s) -> bool:
    return isinstance(s, dict) and "k" in s


def build_arg(s):
    return build_expr(s) if is_expr_spec(s) else V.build(s)


def build_expr(s):
    from redun.expression import SchedulerExpression, SimpleExpression, TaskExpression, ValueExpression

    if s["k"] == "value":
        return ValueExpression(V.build(s["v"]))
    args = tuple(build_arg(a) for a in s["args"])
    kwargs = {k: build_arg(v) for k, v in s["kwargs"].items()}
    if s["k"] == "task":
        return TaskExpression(s["name"], args, kwargs, task_options=dict(s["opts"]), export_options=set(s["exp"]))
    if s["k"] == "sched":
        return SchedulerExpression(s["name"], args, kwargs, task_options=dict(s["opts"]))
    return SimpleExpression(s["name"], args, kwargs)


def mutate(case) -> tuple[dict, str]:
    """Returns (mutated spec, effective mutation actually applied)."""
    e = copy.deepcopy(case["e"])
    mut, i = case["mut"], case["i"]
    if e["k"] == "value":
        if mut in ("none", "kw_order"):
            return e, "none"
        e["v"] = case["new_val"]
        return e, "value"
    if mut == "kind":
        e["k"] = {"task": "sched", "sched": "simple", "simple": "task"}[e["k"]]
        if e["k"] != "task":
            e["exp"] = []
        if e["k"] == "simple":
            e["opts"] = {}
        return e, "kind"
    if mut == "name":
        e["name"] = case["new_name"]
        return e, "name"
    if mut == "arg" and e["args"]:
        e["args"][i % len(e["args"])] = case["new_val"]
        return e, "arg"
    if mut == "arg_order" and len(e["args"]) >= 2:
        e["args"] = e["args"][1:] + e["args"][:1]
        return e, "arg_order"
    if mut == "add_arg":
        e["args"] = e["args"] + [case["new_val"]]
        return e, "add_arg"
    if mut == "kwarg_val" and e["kwargs"]:
        k = sorted(e["kwargs"])[i % len(e["kwargs"])]
        e["kwargs"][k] = case["new_val"]
        return e, "kwarg_val"
    if mut == "kwarg_key" and e["kwargs"]:
        k = sorted(e["kwargs"])[i % len(e["kwargs"])]
        v = e["kwargs"].pop(k)
        e["kwargs"][k + "_"] = v
        return e, "kwarg_key"
    if mut == "opts" and e["k"] in ("task", "sched"):
        k, v = case["new_opt"]
        e["opts"] = dict(e["opts"])
        e["opts"][k] = v
        return e, "opts"
    if mut == "exp" and e["k"] == "task":
        if case["new_exp"] in e["exp"]:
            e["exp"] = [x for x in e["exp"] if x != case["new_exp"]]
        else:
            e["exp"] = e["exp"] + [case["new_exp"]]
        return e, "exp"
    if mut == "kw_order":
        e["kwargs"] = dict(reversed(list(e["kwargs"].items())))
        return e, "kw_order"
    return e, "none"


def identity(expr):
    """(kind, name, arg hashes, kwarg hashes, options, exported options) of a live expression."""
    from redun.expression import SchedulerExpression, SimpleExpression, TaskExpression, ValueExpression
    from redun.value import get_type_registry

    reg = get_type_registry()
    if isinstance(expr, ValueExpression):
        return ("value", reg.get_hash(expr.value))
    kind = ("sched" if isinstance(expr, SchedulerExpression) else "task" if isinstance(expr, TaskExpression)
            else "simple" if isinstance(expr, SimpleExpression) else "?")
    name = expr.func_name if kind == "simple" else expr.task_name
    args = tuple(reg.get_hash(a) for a in expr.args)
    kwargs = tuple(sorted((k, reg.get_hash(v)) for k, v in expr.kwargs.items()))
    opts = expr.__dict__.get("_options", {})
    exp = frozenset(expr.__dict__.get("_export_options", set()))
    return (kind, name, args, kwargs, opts, exp)


def srepr(e) -> str:
    try:
        return repr(e)
    except Exception:  # noqa: BLE001 - generated operator expressions may have shapes repr() does not expect
        return f"<{type(e).__name__}>"


def stable_arg_hashes(expr) -> bool:
    """True if every argument's value hash survives a pickle round trip of the bare argument."""
    from redun.expression import ValueExpression
    from redun.utils import pickle_dumps, pickle_loads
    from redun.value import get_type_registry

    reg = get_type_registry()
    vals = [expr.value] if isinstance(expr, ValueExpression) else list(expr.args) + list(expr.kwargs.values())
    return all(reg.get_hash(v) == reg.get_hash(pickle_loads(pickle_dumps(v))) for v in vals)


def has_nested(s) -> bool:
    if s["k"] == "value":
        return False
    return any(is_expr_spec(a) for a in s["args"]) or any(is_expr_spec(a) for a in s["kwargs"].values())


def oracle(ctx: Ctx, case) -> tuple[str, bool]:
    from redun.expression import ApplyExpression, TaskExpression, derive_expression
    from redun.utils import pickle_dumps, pickle_loads

    e1s = case["e"]
    e2s, applied = mutate(case)
    with ctx.no_raise("build/hash expression", case):
        e1, e2 = build_expr(e1s), build_expr(e2s)
        h1, h2 = e1.get_hash(), e2.get_hash()
        id1, id2 = identity(e1), identity(e2)
    same = id1 == id2
    kind = e1s["k"]
    if not same and h1 == h2:
        fields = [n for n, a, b in zip(["kind", "name", "args", "kwargs", "options", "exported"], id1, id2) if a != b] \
            if len(id1) == len(id2) else ["kind"]
        raise Violation(f"hash-collision:{kind}:{'+'.join(fields)}",
                        f"expressions differing in {fields} share hash {h1[:12]} ({srepr(e1)} vs {srepr(e2)}; "
                        f"{id1[4:] if len(id1) > 4 else ''} vs {id2[4:] if len(id2) > 4 else ''})", case)
    if applied in ("none", "kw_order") and h1 != h2:
        raise Violation(f"hash-unstable:{kind}:{applied}", f"the same call hashed differently ({applied}): {srepr(e1)}", case)
    # pickle round trip, with per-run bookkeeping set beforehand
    if isinstance(e1, TaskExpression):
        e1.call_hash = "deadbeef"
    derive_expression(build_expr({"k": "value", "v": ["int", 1]}), e1)   # sets e1._upstreams = [other]
    with ctx.no_raise("pickle round trip", case):
        r = pickle_loads(pickle_dumps(e1))
        hr = r.get_hash()
        idr = identity(r)
    ctx.require(type(r) is type(e1), f"roundtrip-type:{kind}", f"type changed {type(e1)} -> {type(r)}", case)
    if stable_arg_hashes(e1):
        ctx.require(hr == h1, f"roundtrip-hash:{kind}", f"hash changed over pickle round trip: {h1[:12]} -> {hr[:12]} for {srepr(e1)}", case)
        ctx.require(idr == id1, f"roundtrip-identity:{kind}", f"identity changed over round trip: {id1} -> {idr}", case)
    else:
        # An argument's own value hash is not stable under pickling (nested set order): that is
        # C16's subject; the expression-level claim is only checked on its remaining fields.
        ctx.label("skipped:arg-value-hash-unstable(C16)")
        ctx.require(idr[0] == id1[0] and (kind == "value" or (idr[1] == id1[1] and idr[4:] == id1[4:])), f"roundtrip-identity:{kind}",
                    f"identity changed over round trip: {id1} -> {idr}", case)
    if isinstance(e1, TaskExpression):
        ctx.require(r.call_hash is None, f"roundtrip-callhash:{kind}", f"call_hash survived the round trip: {r.call_hash!r}", case)
        ctx.require(r._length == e1._length, f"roundtrip-length:{kind}", "length changed", case)
    if isinstance(e1, ApplyExpression):
        ok = len(r._upstreams) == 2 and r._upstreams[0] is r.args and r._upstreams[1] is r.kwargs
        ctx.require(ok, f"roundtrip-upstreams:{kind}", "_upstreams not reset to [args, kwargs]", case)
        ctx.require(type(r.args) is tuple and type(r.kwargs) is dict, f"roundtrip-argtypes:{kind}", "args/kwargs container types changed", case)
    else:
        ctx.require(r._upstreams == [], f"roundtrip-upstreams:{kind}", "_upstreams not reset", case)
    return applied, same


# ------------------------------------------------------------------ expressions made through Task derivations
_dkeys = st.sampled_from(["memory", "vcpus", "prov", "cache", "limits_x"])
_dvals = st.sampled_from([1, 2, True, False])


@st.composite
def derive_cases(draw):
    """A history of task derivations and calls on one Task: export_options(..), options(..), call."""
    ops = []
    ntasks = 1
    for _ in range(draw(st.integers(3, 10))):
        c = draw(st.sampled_from(["export", "options", "options", "call", "call"]))
        src = draw(st.integers(0, ntasks - 1))
        if c == "call":
            ops.append(["call", src, draw(st.integers(0, 2))])
        else:
            ops.append([c, src, {draw(_dkeys): draw(_dvals)}])
            ntasks += 1
    if not any(o[0] == "call" for o in ops):
        ops.insert(draw(st.integers(0, len(ops))), ["call", 0, 1])
    return {"derive": True, "ops": ops}


def derive_oracle(ctx: Ctx, case) -> None:
    """Expressions are values: once built, neither later derivations of the task they came from nor
    of its relatives may change what they denote. Every expression's identity and hash are recorded
    when it is built and compared at the end; equal hashes must mean equal identities; the pickle
    round trip preserves both."""
    from redun import Task
    from redun.utils import pickle_dumps, pickle_loads

    def f(x):
        return x

    tasks = [Task(f, name="d0", namespace="vf_c18", source="def f(x): return x")]
    made = []
    for op in case["ops"]:
        src = tasks[op[1] % len(tasks)]
        with ctx.no_raise(f"Task.{op[0]}", case):
            if op[0] == "export":
                tasks.append(src.export_options(**op[2]))
            elif op[0] == "options":
                tasks.append(src.options(**op[2]))
            else:
                e = src(op[2])
                made.append((e, e.get_hash(), identity(e)))
    by_hash = {}
    for n, (e, h, ident) in enumerate(made):
        now = identity(e)
        ctx.require(now == ident, "derive:expression-changed-after-the-fact",
                    f"expression #{n} {srepr(e)} denoted {ident} when it was built and now denotes {now}: a later derivation of "
                    f"its task changed it", case)
        ctx.require(e._calc_hash() == h, "derive:hash-stale", f"expression #{n}: the hash taken when it was built is no longer the "
                    f"hash of what it holds", case)
        r = pickle_loads(pickle_dumps(e))
        ctx.require(r.get_hash() == h and identity(r) == ident, "derive:roundtrip", f"expression #{n}: hash/identity changed over the "
                    f"pickle round trip ({h[:10]} -> {r.get_hash()[:10]}, {ident} -> {identity(r)})", case)
        if h in by_hash and by_hash[h] != ident:
            raise Violation("derive:hash-collision", f"two expressions with hash {h[:10]} denote different calls: {by_hash[h]} vs {ident}", case)
        by_hash[h] = ident


def run_case(ctx: Ctx, case) -> None:
    if case.get("derive"):
        try:
            derive_oracle(ctx, case)
        finally:
            kinds = {o[0] for o in case["ops"]}
            ctx.case(case, labels=["derive"] + sorted(f"op:{k}" for k in kinds), nontrivial={"export", "options", "call"} <= kinds)
        return
    applied, same = "?", True
    try:
        applied, same = oracle(ctx, case)
    finally:
        nt = (not same and applied not in ("none", "kw_order")) or has_nested(case["e"])
        ctx.case(case, labels=[f"kind:{case['e']['k']}", f"mut:{applied}"] + (["nested"] if has_nested(case["e"]) else []),
                 nontrivial=nt)


def check(ctx: Ctx) -> None:
    ctx.given(cases(), lambda c: run_case(ctx, c), ctx.n(1500, 50000))
    ctx.given(derive_cases(), lambda c: run_case(ctx, c), ctx.n(300, 8000))


def replay(ctx: Ctx, case) -> None:
    if case.get("derive"):
        derive_oracle(ctx, case)
        return
    oracle(ctx, case)
