"""C38 — sub-scheduler runs (subrun) are equivalent to direct evaluation."""
from __future__ import annotations

from hypothesis import strategies as st

from vf.core import Ctx, Violation
from vf.lab import ctl as C
from vf.lab import dbx
from vf.lab import progs as P

ID = "C38"
LEVEL = "exploration"
RULE = (
    "Generated sub-programs (C01 grammar: values, nested jobs, control forms, failures) evaluated "
    "through subrun(expr, executor='default', new_execution=True/False) with the real local thread "
    "executor and a sub-scheduler recording into the same SQLite file, with caching on or off, alone, "
    "inside a task, after a directly evaluated copy, or under a task whose update_context overrides a "
    "context configured for the scheduler (the sub-workflow reads its context), then executed a second (third) time on the same "
    "backend, in the same or in the other mode. Oracle: "
    "(1) the result or error (type, message) equals what the reference interpreter gives for direct "
    "evaluation, in both executions; (2) with new_execution=False the root job of the sub-workflow is "
    "recorded with the redun.subrun_root_task job as parent and in the same execution, with "
    "new_execution=True it belongs to another execution (at least two Executions appear), and the first "
    "execution that asks for a mode is never answered from the other mode's cache entry; (3) every cache lookup made for "
    "redun.subrun_root_task (observed by wrapping the backend's check_cache) is restricted to CSE / "
    "ultimate results and never answers with a single-reduction entry. Non-trivial = sub-program with "
    ">=2 jobs, or a re-execution."
)
ASSUMPTIONS = ["sub-scheduler and parent share one SQLite file through the forwarded config (what subrun does by default)"]
MANIFEST = {"technique": "differential subrun vs reference interpreter + database/caching audit (Hypothesis, real local executor)"}

SUB_ALLOW = ["lit", "task", "task", "task", "op", "list", "tuple", "dict", "cond", "seq", "catch", "map", "apply", "let",
             "ptask", "throw", "div0", "boom", "raise_now_task", "getitem", "nt"]


@st.composite
def cases(draw):
    body = draw(P.programs(max_depth=2, modes=("node", "dnode"), errors=True, allow=SUB_ALLOW))
    new_exec = draw(st.booleans())
    sub = ["subrun", body, new_exec, {}]
    # (no "next to a directly evaluated copy" shape: parent and sub-scheduler would then record the
    # same call nodes from two threads at once, whose outcome depends on OS-thread timing that the
    # harness does not own — see DESIGN.md section 5)
    shape = draw(st.sampled_from(["alone", "alone", "in-task", "after-direct"]))
    if shape == "in-task":
        prog = ["list", [["task", sub, {}, {}]]]
    elif shape == "after-direct":
        prog = ["seq", [body, sub]]
    else:
        prog = ["list", [sub]]
    root = {}
    if draw(st.integers(0, 2)) == 0:
        # a configured context, overridden on the way to the subrun by update_context: the
        # sub-workflow reads the context it runs under
        root = {"a": draw(st.integers(1, 3)), "b": {"x": 2}}
        reads = ["list", [body, ["getctx", "a", 0], ["getctx", "b.x", 0], ["task", ["getctx", "a", 0], {}, {}]]]
        sub = ["subrun", reads, new_exec, {}]
        ov = draw(st.sampled_from([{"a": 7}, {"b": {"x": 9}}, {"a": 8, "c": 1}]))
        prog = ["list", [["task", sub, {}, {"ctx": ov}]]]
        shape = "ctx-override"
    rerun = draw(st.booleans())
    # executions of the same program on the same backend; a later one may use the other mode
    modes = [new_exec] + ([draw(st.sampled_from([new_exec, new_exec, not new_exec]))] if rerun else [])
    if rerun and draw(st.integers(0, 3)) == 0:
        modes.append(draw(st.booleans()))
    return {"prog": prog, "new_execution": new_exec, "cache": draw(st.booleans()), "shape": shape, "rerun": rerun, "modes": modes,
            "root": root}


def with_mode(prog, mode):
    if isinstance(prog, list):
        if len(prog) == 4 and prog[0] == "subrun":
            return ["subrun", prog[1], mode, prog[3]]
        return [with_mode(x, mode) for x in prog]
    if isinstance(prog, dict):
        return {k: with_mode(v, mode) for k, v in prog.items()}
    return prog


def run_real(case, backend, path, log, prog=None):
    import vf_tasks
    from redun import Scheduler
    from redun.config import Config
    from redun.task import CacheResult

    cd = {"backend": {"db_uri": "sqlite:///" + path, "db_retries_backoff": "0"}}
    if case.get("root"):
        import json

        cd["scheduler"] = {"context": json.dumps(case["root"])}
    cfg = Config(config_dict=cd)
    sched = Scheduler(config=cfg, backend=backend)
    orig = backend.check_cache
    sub_hash = sched.task_registry.get("redun.subrun_root_task").hash

    def spy(task_hash, *a, **k):
        res = orig(task_hash, *a, **k)
        if task_hash == sub_hash:
            allowed = k.get("allowed_cache_results") if "allowed_cache_results" in k else (a[7] if len(a) > 7 else None)
            log.append((res[2], None if allowed is None else sorted(x.name for x in allowed)))
        return res

    backend.check_cache = spy
    try:
        try:
            return ("ok", sched.run(vf_tasks.node(P.fresh(prog or case["prog"]), {}), cache=case["cache"]))
        except Exception as e:  # noqa: BLE001 - the program's failure is an outcome
            return ("err", e)
    finally:
        backend.check_cache = orig


def oracle(ctx: Ctx, case):
    from redun.backends.db import Execution, Job
    from redun.task import CacheResult

    C.quiet_logs()
    exp = P.reference(case["prog"], context=case.get("root") or None)
    path = dbx.new_db_path()
    backend = dbx.open_backend(path)
    info = {"subjobs": 0}
    try:
        modes = case.get("modes") or [case["new_execution"]] * (2 if case["rerun"] else 1)
        seen_exec: set = set()
        for attempt, mode in enumerate(modes):
            log = []
            kind, payload = run_real(case, backend, path, log, with_mode(case["prog"], mode))
            if not P.outcome_in(kind, payload, exp):
                raise Violation(f"subrun-result-differs:{'rerun' if attempt else 'first'}",
                                f"execution {attempt}: through subrun got {kind} {payload!r}; direct evaluation gives "
                                f"{exp.oks[:1]!r} {[P.err_key(e) for e in exp.errs[:3]]}", case)
            for cache_type, allowed in log:
                if cache_type == CacheResult.SINGLE or (allowed is not None and "SINGLE" in allowed):
                    raise Violation("subrun-single-reduction", f"cache lookup for redun.subrun_root_task answered {cache_type} "
                                    f"with allowed results {allowed}", case)
            session = backend.session
            session.expire_all()
            new_execs = {e.id for e in session.query(Execution).all()} - seen_exec
            seen_exec |= new_execs
            first_in_mode = mode not in modes[:attempt]
            sub_root_jobs = [j for j in session.query(Job).all() if j.task and j.task.fullname == "redun.subrun_root_task"
                             and j.execution_id in new_execs]
            for sj in sub_root_jobs:
                kids = session.query(Job).filter(Job.parent_id == sj.id).all()
                info["subjobs"] += len(kids)
                if first_in_mode and sj.cached and kind == "ok" and attempt > 0:
                    raise Violation(f"subrun-mode-ignored-by-cache:{'new' if mode else 'extend'}-after-{'extend' if mode else 'new'}",
                                    f"execution {attempt} asks for new_execution={mode} for the first time on this backend, "
                                    f"yet redun.subrun_root_task was answered from the cache entry of the other mode "
                                    f"({'no new Execution is recorded' if mode else 'the sub-workflow jobs are not recorded under the calling job'})", case)
                if not mode and not sj.cached and sj.call_hash and sj.status == "DONE":
                    if not kids:
                        raise Violation("subrun-jobs-not-under-caller", "new_execution=False: no Job row has the subrun_root_task job as parent", case)
                    for kjob in kids:
                        if kjob.execution_id != sj.execution_id:
                            raise Violation("subrun-jobs-other-execution", "new_execution=False: sub-workflow job recorded in another execution", case)
                if mode and kids:
                    raise Violation("subrun-new-execution-linked", "new_execution=True: sub-workflow jobs hang under the calling job", case)
            if mode and kind == "ok" and first_in_mode:
                if len(new_execs) < 2:
                    raise Violation("subrun-no-new-execution", "new_execution=True but no additional Execution was recorded", case)
    finally:
        dbx.discard_backend(backend)
    return info


def run_case(ctx: Ctx, case) -> None:
    info = None
    try:
        info = oracle(ctx, case)
    finally:
        f = P.features(case["prog"])
        ctx.case(case, labels=[f"new_execution:{case['new_execution']}", f"cache:{case['cache']}", f"shape:{case['shape']}",
                               f"rerun:{case['rerun']}", "mode-flip" if len(set(case.get("modes") or [0])) > 1 else "one-mode"], nontrivial=f["jobdepth"] >= 2 or case["rerun"])


def check(ctx: Ctx) -> None:
    ctx.given(cases(), lambda c: run_case(ctx, c), ctx.n(80, 1600), shrink=False)


def replay(ctx: Ctx, case) -> None:
    oracle(ctx, case)
