"""C05 — results are never shared between calls with different contexts."""
from __future__ import annotations

from hypothesis import strategies as st

from vf.core import Ctx, Violation
from vf.lab import ctl as C
from vf.lab import dbx
from vf.lab import progs as P
from vf.lab import schedrun

ID = "C05"
LEVEL = "exploration"
RULE = (
    "Generated programs that call the same task with the same arguments under different effective "
    "contexts: the value depends on get_context directly, through a child job, through a default "
    "argument that is a get_context expression, or through a default argument that is a task call "
    "reading the context; calls are made with and without update_context overrides (dict overrides, nested "
    "keys), in either order; ordered by seq (second starts after the first finished), by data "
    "dependency, side by side (twin still pending), across two executions on one backend, or as a "
    "three-step history (context A; later execution: context B, then A again); "
    "check_valid full and shallow; root context empty or non-empty (config + run(context=)); each run "
    "under a generated completion schedule. Oracle: the reference interpreter's context model gives "
    "each call's value for ITS effective context; the result of every execution must equal it. "
    "Non-trivial = the same task+arguments reached under >=2 different effective contexts, one of "
    "them empty, with the second call starting after the first finished."
)
ASSUMPTIONS = ["task bodies are deterministic functions of (arguments, effective context)"]
MANIFEST = {"technique": "differential against a context-aware reference interpreter over generated call orders/schedules (Hypothesis, controlled executor)"}

ctxv = st.one_of(st.integers(1, 3), st.sampled_from(["s"]), st.fixed_dictionaries({"x": st.integers(1, 3)}))
overrides = st.one_of(st.fixed_dictionaries({"a": ctxv}), st.fixed_dictionaries({"b": st.fixed_dictionaries({"x": st.integers(1, 3)})}),
                      st.fixed_dictionaries({"a": ctxv, "b": st.fixed_dictionaries({"x": st.integers(1, 3)})}))


@st.composite
def cases(draw):
    kind = draw(st.sampled_from(["direct", "child", "default", "mixed", "default-task"]))
    if kind == "direct":
        body, t = ["list", [["getctx", "a", 0], ["getctx", "b.x", "d"]]], "node"
    elif kind == "child":
        body, t = ["task", ["list", [["getctx", "a", 0], ["getctx", "a.x", None]]], {}, {}], "node"
    elif kind == "default":
        body, t = ["list", [["var", "c"], ["var", "c2"]]], "cnode"
    elif kind == "default-task":
        # the default argument is a task call (a job of its own) whose body reads the context
        body, t = ["list", [["var", "g"], ["lit", ["int", 1]]]], "gnode"
    else:
        body, t = ["list", [["var", "c"], ["task", ["getctx", "b.x", 0], {}, {}]]], "cnode"
    shallow = draw(st.booleans())

    def call(ov):
        o = {}
        if t != "node":
            o["t"] = t
        if shallow:
            o["check_valid"] = "shallow"
        if ov is not None:
            o["ctx"] = ov
        return ["task", body, {}, o]

    ovs = [None, draw(overrides)]
    if draw(st.booleans()):
        ovs.append(draw(overrides))
    order = draw(st.permutations(ovs))
    calls = [call(ov) for ov in order]
    shape = draw(st.sampled_from(["seq", "list", "dep", "two-exec", "nested", "three-step"]))
    progs = []
    if shape == "seq":
        progs = [["seq", calls]]
    elif shape == "list":
        progs = [["list", calls]]
    elif shape == "dep":
        # the second call is only created once the first has finished (it is in the recover-free
        # branch of a cond on the first one's value)
        progs = [["let", "s", calls[0], ["list", [["var", "s"], ["cond", [["op", "eq", ["var", "s"], ["var", "s"]], calls[1], ["lit", ["int", -1]]]]]]]]
    elif shape == "nested":
        progs = [["list", [["task", calls[0], {}, {"ctx": draw(overrides)}], calls[-1]]]]
    elif shape == "three-step":
        # (1) the call is evaluated under one context, (2) in a later execution under another one
        # (never seen for it: answered by a single reduction), (3) then, after (2) finished, under
        # the first one again
        first = draw(st.sampled_from([None, ovs[-1]]))
        second = ovs[1] if first is None or len(ovs) < 3 else draw(st.sampled_from([None, ovs[1]]))
        if second == first:
            second = None if first is not None else ovs[1]
        progs = [["list", [call(first)]], ["seq", [call(second), call(first)]]]
    else:
        progs = [["list", [calls[0]]], ["list", calls[1:]]]
    root = draw(st.sampled_from([{}, {}, {"a": 9}, {"b": {"x": 8}}]))
    runc = draw(st.sampled_from([{}, {}, {"a": {"x": 7}}]))
    return {"progs": progs, "shape": shape, "kind": kind, "shallow": shallow, "root": root, "runctx": runc,
            "decisions": draw(st.lists(st.integers(0, 3), max_size=20)), "fine": draw(st.booleans()),
            "n_ctx": len(ovs)}


def oracle(ctx: Ctx, case):
    backend = dbx.fresh_backend()
    eff_root = P.merge_ctx(case["root"], case["runctx"])
    try:
        for i, prog in enumerate(case["progs"]):
            exp = P.reference(prog, context=eff_root)
            r = schedrun.run_program(prog, decisions=case["decisions"], fine=case["fine"], backend=backend,
                                     context=case["root"] or None, run_kwargs={"context": case["runctx"]})
            if r.kind in ("quiescent", "budget"):
                raise Violation("stuck", f"did not terminate: {r.payload}", case)
            if not P.outcome_in(r.kind, r.payload, exp):
                first_empty = '"ctx"' not in repr(case["progs"][0][1][0]).replace("'", '"') if case["shape"] != "two-exec" else None
                where = "cse-or-cache"
                raise Violation(f"context-result-shared:{case['shape']}:{'shallow' if case['shallow'] else 'full'}",
                                f"execution {i}: got {r.kind} {r.payload!r}, expected {exp.oks[:1]!r} {[P.err_key(e) for e in exp.errs[:2]]} "
                                f"(root context {eff_root})", case)
    finally:
        dbx.discard_backend(backend)


@st.composite
def catch_ctx_cases(draw):
    """The same catch(...) expression evaluated in two or three executions on one backend, each under
    its own run context; the guarded task reads the context and fails for some values of it."""
    bad = draw(st.integers(1, 2))
    body = ["list", [["getctx", "a", 0], ["cond", [["op", "eq", ["getctx", "a", 0], ["lit", ["int", bad]]],
                                                   ["throw", "ValueError", "e1"], ["lit", ["int", 0]]]]]]
    prog = ["list", [["catch", ["task", body, {}, {}], ["ValueError"], ["list", [["lit", ["int", -1]], ["getctx", "a", 0]]], {}]]]
    ctxs = draw(st.lists(st.sampled_from([{}, {"a": 1}, {"a": 2}, {"a": 3}]), min_size=2, max_size=3))
    return {"family": "catch-ctx", "prog": prog, "runctxs": ctxs, "bad": bad}


def catch_ctx_oracle(ctx: Ctx, case) -> None:
    backend = dbx.fresh_backend()
    try:
        seen_recover = False
        for i, rc in enumerate(case["runctxs"]):
            exp = P.reference(case["prog"], context=rc)
            r = schedrun.run_program(case["prog"], decisions=[], backend=backend, run_kwargs={"context": rc})
            if r.kind in ("quiescent", "budget"):
                raise Violation("stuck", f"did not terminate: {r.payload}", case)
            if not P.outcome_in(r.kind, r.payload, exp):
                if seen_recover and r.kind == "ok" and r.payload and r.payload[0][0] == -1:
                    raise Violation("context-result-shared:catch-recovery",
                                    f"execution {i} under run context {rc}: got {r.payload!r}, expected {exp.oks[:1]!r}: catch() "
                                    f"replayed the recovery it had cached under another context (earlier contexts "
                                    f"{case['runctxs'][:i]})", case)
                raise Violation("context-result-shared:catch", f"execution {i} under run context {rc}: got {r.kind} {r.payload!r}, "
                                f"expected {exp.oks[:1]!r}", case)
            if rc.get("a", 0) == case["bad"]:
                seen_recover = True
    finally:
        dbx.discard_backend(backend)


def run_case(ctx: Ctx, case) -> None:
    if case.get("family") == "catch-ctx":
        try:
            catch_ctx_oracle(ctx, case)
        finally:
            ctx.case(case, labels=["family:catch-ctx"], nontrivial=len({json_key(c) for c in case["runctxs"]}) >= 2)
        return
    try:
        oracle(ctx, case)
    finally:
        after = case["shape"] in ("seq", "dep", "two-exec", "three-step")
        ctx.case(case, labels=[f"shape:{case['shape']}", f"kind:{case['kind']}", f"shallow:{case['shallow']}",
                               "root-empty" if not (case["root"] or case["runctx"]) else "root-nonempty"],
                 nontrivial=after and not (case["root"] or case["runctx"]))


def json_key(c):
    import json

    return json.dumps(c, sort_keys=True)


def check(ctx: Ctx) -> None:
    C.quiet_logs()
    ctx.given(catch_ctx_cases(), lambda c: run_case(ctx, c), ctx.n(30, 600))
    ctx.given(cases(), lambda c: run_case(ctx, c), ctx.n(320, 6000))


def replay(ctx: Ctx, case) -> None:
    C.quiet_logs()
    if case.get("family") == "catch-ctx":
        catch_ctx_oracle(ctx, case)
        return
    oracle(ctx, case)
