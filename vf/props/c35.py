"""C35 — configuration survives conversion to a two-level dict and back."""
from __future__ import annotations

import os

from hypothesis import strategies as st

from vf.core import Ctx, Violation

ID = "C35"
LEVEL = "exploration"
RULE = (
    "Hypothesis-generated INI specs: 1-5 prefix-free dotted section names (case-sensitive parts), 0-4 "
    "options each; values are sequences of pieces: literal text (incl. = : # % ; unicode, inner spaces), "
    "escaped dollars ($$, also before '{'), ${key} / ${section:key} references to earlier options, "
    "${ENVVAR} of a harness-set variable, the generated config-dir path (components may contain a "
    "literal dollar, as may the replacement directory), and optional continuation "
    "lines. Oracle: c2 = Config(config_dict=c1.get_config_dict()) has the same nested section tree "
    "and the same effective value for every option; with replace_config_dir=R the effective value is "
    "eff.replace(config_dir, R), i.e. only values containing the directory change. Non-trivial = >=2 "
    "sections incl. a nested one and at least one of {interpolation, escaped dollar, config dir}."
)
ASSUMPTIONS = [
    "section names are prefix-free (Config._parse_sections cannot nest a section under a section that has options)",
    "no DEFAULT section; option names do not collide with environment variable names",
]
MANIFEST = {"technique": "round-trip property over a grammar of INI files (Hypothesis; atheris campaign in thorough)"}

part = st.sampled_from(["a", "b", "c", "A", "x1", "executors", "batch", "backend", "repos", "my repo", "k-s"])
lit_chars = st.sampled_from(list("abcXYZ019 =:#%;/._-@!{}[]\"'\\") + ["é", "λ", "日"])
literal = st.text(lit_chars, min_size=1, max_size=8)
opt_names = ["k0", "k1", "k2", "Key", "db_uri", "config_dir"]
ENV_NAME = "VF_C35_ENV"
ENV_VALUE = "env/val"


@st.composite
def specs(draw):
    n = draw(st.integers(1, 5))
    names: list[str] = []
    tries = 0
    while len(names) < n and tries < 20:
        tries += 1
        parts = draw(st.lists(part, min_size=1, max_size=3))
        name = ".".join(parts)
        if name == "DEFAULT":
            continue
        ok = True
        for other in names:
            a, b = other.split("."), parts
            m = min(len(a), len(b))
            if a[:m] == b[:m]:
                ok = False
        if ok:
            names.append(name)
    confdir = "/" + "/".join(draw(st.lists(st.sampled_from(["tmp", "home", "u", ".redun", "cfg", "pro$ject", "$x"]), min_size=1, max_size=3)))
    sections = []
    defined: list[tuple[str, str]] = []
    for name in names:
        opts = []
        keys = draw(st.lists(st.sampled_from(opt_names), max_size=4, unique=True))
        for key in keys:
            pieces = []
            for _ in range(draw(st.integers(0, 4))):
                kind = draw(st.sampled_from(["lit", "lit", "dollar", "dollar_brace", "ref", "env", "dir", "cont"]))
                if kind == "lit":
                    pieces.append(["lit", draw(literal)])
                elif kind == "dollar":
                    pieces.append(["dollar", draw(st.sampled_from(["", "5", "HOME", " x"]))])
                elif kind == "dollar_brace":
                    pieces.append(["dollar", "{" + draw(st.sampled_from(["k0", "a:k0", "HOME", ""])) + "}"])
                elif kind == "ref" and defined:
                    sec, k = defined[draw(st.integers(0, len(defined) - 1))]
                    pieces.append(["ref", sec, k] if sec != name or draw(st.booleans()) else ["ref", "", k])
                elif kind == "env":
                    pieces.append(["env"])
                elif kind == "dir":
                    pieces.append(["dir", draw(st.sampled_from(["", "/redun.db", "/sub"]))])
                elif kind == "cont":
                    pieces.append(["cont", draw(st.text(st.sampled_from(list("abc 12=")), min_size=1, max_size=5))])
            opts.append([key, pieces])
            # configparser drops the environment fallback when it follows a reference, so options
            # that use ${ENV} are never referenced by others (limitation outside this property).
            if not any(p[0] == "env" for p in pieces):
                defined.append((name, key))
        sections.append([name, opts])
    repl = draw(st.sampled_from([".", "/other/dir", "", "REPL", "/mnt/$shared/.redun", "/m/${k0}", "$$"]))
    return {"confdir": confdir, "sections": sections, "replace": repl}


def render(spec: dict) -> str:
    lines = []
    for name, opts in spec["sections"]:
        lines.append(f"[{name}]")
        for key, pieces in opts:
            cur = ""
            for p in pieces:
                if p[0] == "lit":
                    cur += p[1]
                elif p[0] == "dollar":
                    cur += "$$" + p[1]
                elif p[0] == "ref":
                    cur += "${" + (p[1] + ":" if p[1] else "") + p[2] + "}"
                elif p[0] == "env":
                    cur += "${" + ENV_NAME + "}"
                elif p[0] == "dir":
                    cur += spec["confdir"].replace("$", "$$") + p[1]
                elif p[0] == "cont":
                    cur += "\n    x" + p[1]
            lines.append(f"{key} = {cur}")
        lines.append("")
    return "\n".join(lines)


def tree(cfg) -> dict:
    from configparser import SectionProxy

    def walk(obj):
        if isinstance(obj, SectionProxy):
            return ("leaf", {k: v for k, v in obj.items()})
        return ("node", {k: walk(obj[k]) for k in obj.keys()})

    return walk(cfg)


def flat(t, path="") -> dict:
    kind, d = t
    if kind == "leaf":
        return {path: d}
    out = {}
    for k, v in d.items():
        out.update(flat(v, f"{path}.{k}" if path else k))
    return out


def features(spec) -> set:
    f = set()
    for name, opts in spec["sections"]:
        if "." in name:
            f.add("nested")
        for key, pieces in opts:
            for p in pieces:
                f.add(p[0])
    return f


def oracle(ctx: Ctx, spec: dict) -> None:
    from redun.config import Config

    old_env = {k: os.environ.get(k) for k in (ENV_NAME, "REDUN_CONFIG")}
    os.environ[ENV_NAME] = ENV_VALUE
    os.environ["REDUN_CONFIG"] = spec["confdir"]
    try:
        text = render(spec)
        c1 = Config()
        try:
            c1.read_string(text)
            t1 = tree(c1)
        except Exception as e:  # noqa: BLE001 - generator produced an INI the parser refuses: not a property matter
            from vf.core import HarnessError

            raise HarnessError(f"generator produced an unreadable INI ({type(e).__name__}: {e}):\n{text}")
        with ctx.no_raise("get_config_dict", spec):
            d = c1.get_config_dict()
        ctx.require(isinstance(d, dict) and all(isinstance(v, dict) for v in d.values()),
                    "dict-shape", f"get_config_dict is not a two-level dict: {d!r}", spec)
        ctx.require(set(d) == {name for name, _ in spec["sections"]}, "dict-sections",
                    f"sections {sorted(d)} != defined {[n for n, _ in spec['sections']]}", spec)
        try:
            c2 = Config(config_dict=d)
            t2 = tree(c2)
        except Exception as e:  # noqa: BLE001
            raise Violation(f"rebuild-raises:{type(e).__name__}", f"Config(config_dict=get_config_dict()) failed: "
                            f"{type(e).__name__}: {str(e)[:200]}; dict={d!r}", spec)
        if t1 != t2:
            f1, f2 = flat(t1), flat(t2)
            diff = [(s, k, f1.get(s, {}).get(k), f2.get(s, {}).get(k)) for s in sorted(set(f1) | set(f2))
                    for k in sorted(set(f1.get(s, {})) | set(f2.get(s, {}))) if f1.get(s, {}).get(k) != f2.get(s, {}).get(k)]
            raise Violation("roundtrip-differs", f"effective config changed (section, key, before, after): {diff[:3]}; "
                            f"sections before={sorted(f1)} after={sorted(f2)}", spec)
        # replace_config_dir rewrites exactly the values that contain the directory
        R = spec["replace"]
        with ctx.no_raise("get_config_dict(replace)", spec):
            d3 = c1.get_config_dict(replace_config_dir=R)
        try:
            f3 = flat(tree(Config(config_dict=d3))) if d3 else {}
        except Exception as e:  # noqa: BLE001
            raise Violation(f"rebuild-raises:{type(e).__name__}", f"Config(config_dict=get_config_dict(replace_config_dir)) "
                            f"failed: {type(e).__name__}: {str(e)[:200]}", spec)
        f1 = flat(t1)
        for sec, kv in f1.items():
            for k, v in kv.items():
                want = v.replace(spec["confdir"], R)
                got = f3.get(sec, {}).get(k)
                if got != want:
                    raise Violation("replace-config-dir", f"[{sec}] {k}: effective {v!r} became {got!r}, expected {want!r}", spec)
    finally:
        for k, v in old_env.items():
            if v is None:
                os.environ.pop(k, None)
            else:
                os.environ[k] = v


def run_case(ctx: Ctx, spec: dict) -> None:
    f = features(spec)
    nt = len(spec["sections"]) >= 2 and "nested" in f and bool(f & {"ref", "env", "dollar", "dir"})
    ctx.case(spec, labels=sorted(f), nontrivial=nt)
    oracle(ctx, spec)


def check(ctx: Ctx) -> None:
    ctx.given(specs(), lambda s: run_case(ctx, s), ctx.n(800, 30000))
    if ctx.thorough:
        from vf.lab import fuzz

        fuzz.atheris_campaign(ctx, "vf.props.c35", runs=ctx.n(5000, 80000))


def fuzz_entry():
    import hypothesis

    ctx = Ctx(ID, "thorough", 0)

    @hypothesis.settings(database=None, deadline=None)
    @hypothesis.given(specs())
    def t(s):
        run_case(ctx, s)

    return t.hypothesis.fuzz_one_input, ctx


def replay(ctx: Ctx, case) -> None:
    oracle(ctx, case)
