"""C19 — nested values are traversed (iter_nested_value) and rebuilt (map_nested_value) faithfully."""
from __future__ import annotations

import dataclasses

from hypothesis import strategies as st

import vf_types as T
from vf.core import Ctx, Violation
from vf.lab import values as V

ID = "C19"
LEVEL = "exploration"
RULE = (
    "Hypothesis-generated value specs to depth 5: lists, tuples, named tuples (2 classes), sets with "
    "heterogeneous hashable elements (incl. tuples / frozen dataclasses), dicts whose keys may be "
    "tuples / named tuples / frozen dataclasses, dataclasses (plain, frozen, with non-init fields), "
    "container subclasses and frozensets as leaves. Oracle: an independent structural recursion "
    "builds the expected value with an injective, hashable Box(leaf) substituted; result must be "
    "deep-typed-equal (types compared at every level); the multiset (by identity) of leaves the mapped "
    "function was called on must equal both list(iter_nested_value(v)) and the reference leaf list. "
    "(the scheduler pass also re-runs the value with one leaf expression that has already failed and been "
    "handled by a catch under the same job: the container must fail, not be delivered) "
    "A second pass puts task expressions at leaf positions and requires Scheduler.run to return the "
    "structure with results substituted. Non-trivial = depth>=3 with >=2 container kinds incl. a "
    "dataclass or named tuple."
)
ASSUMPTIONS = [
    "frozenset and container subclasses are leaves (the property lists list/tuple/named tuple/set/dict/dataclass)",
    "the mapped function is injective and returns hashable values, so sets and dict keys keep their cardinality",
]
MANIFEST = {"technique": "differential against an independent structural recursion (Hypothesis)"}

hl = V.hashable_leaf_specs
hashable = st.one_of(
    hl,
    st.lists(hl, max_size=2).map(lambda xs: ["tuple", xs]),
    st.tuples(hl, hl).map(lambda xy: ["nt", "Point", list(xy)]),
    st.tuples(hl, hl).map(lambda ab: ["dc", "FrozenRec", {"a": ab[0], "b": ab[1]}]),
    st.lists(st.integers(0, 3), max_size=2, unique=True).map(lambda xs: ["frozenset", [["int", x] for x in xs]]),
)


def containers(c):
    return st.one_of(
        V.container_specs(c, sets=False, subclasses=True),
        st.lists(hashable, max_size=3, unique_by=repr).map(lambda xs: ["set", xs]),
        st.lists(st.tuples(hashable, c), max_size=3, unique_by=lambda kv: repr(kv[0])).map(
            lambda kvs: ["dict", [list(kv) for kv in kvs]]),
    )


specs = st.recursive(V.leaf_specs, containers, max_leaves=12)


class Box:
    __slots__ = ("inner",)

    def __init__(self, inner):
        self.inner = inner

    def __eq__(self, other):
        return type(other) is Box and type(self.inner) is type(other.inner) and V.deep_typed_equal(self.inner, other.inner)

    def __hash__(self):
        return hash((type(self.inner).__name__, repr(self.inner)))

    def __repr__(self):
        return f"Box({self.inner!r})"


def is_nt(v):
    return isinstance(v, tuple) and hasattr(v, "_fields")


def ref_map(v):
    """Reference: the statement's structural recursion."""
    t = type(v)
    if t is list:
        return [ref_map(i) for i in v]
    if t is tuple:
        return tuple(ref_map(i) for i in v)
    if is_nt(v):
        return t(*[ref_map(i) for i in v])
    if t is set:
        return {ref_map(i) for i in v}
    if t is dict:
        return {ref_map(k): ref_map(x) for k, x in v.items()}
    if dataclasses.is_dataclass(t):
        fields = dataclasses.fields(v)
        obj = t(**{f.name: ref_map(getattr(v, f.name)) for f in fields if f.init})
        for f in fields:
            if not f.init:
                object.__setattr__(obj, f.name, ref_map(getattr(v, f.name)))
        return obj
    return Box(v)


def ref_leaves(v, out):
    t = type(v)
    if t in (list, tuple, set) or is_nt(v):
        for i in v:
            ref_leaves(i, out)
    elif t is dict:
        for k, x in v.items():
            ref_leaves(k, out)
            ref_leaves(x, out)
    elif dataclasses.is_dataclass(t):
        for f in dataclasses.fields(v):
            ref_leaves(getattr(v, f.name), out)
    else:
        out.append(v)
    return out


def typed_equal_boxes(a, b) -> bool:
    return V.deep_typed_equal(a, b)


def oracle(ctx: Ctx, spec) -> None:
    from redun.utils import iter_nested_value, map_nested_value

    v = V.build(spec)
    calls = []

    def f(x):
        calls.append(x)
        return Box(x)

    with ctx.no_raise("map_nested_value", spec):
        out = map_nested_value(f, v)
    with ctx.no_raise("iter_nested_value", spec):
        it = list(iter_nested_value(v))
    exp = ref_map(v)
    if not V.deep_typed_equal(out, exp):
        raise Violation("rebuild-differs", f"map_nested_value gave {out!r}, expected {exp!r}", spec)
    ref = ref_leaves(v, [])
    ids = lambda xs: sorted(id(x) for x in xs)  # noqa: E731
    if ids(calls) != ids(ref):
        raise Violation("mapped-leaves-differ", f"function called on {calls!r}, leaves are {ref!r}", spec)
    if ids(it) != ids(ref):
        raise Violation("iter-leaves-differ", f"iter_nested_value yielded {it!r}, leaves are {ref!r}", spec)
    # identity map is a faithful copy with the same types
    with ctx.no_raise("map_nested_value", spec):
        same = map_nested_value(lambda x: x, v)
    if not V.deep_typed_equal(same, v):
        raise Violation("identity-map-differs", f"identity map gave {same!r} for {v!r}", spec)


# ---------------------------------------------------------------- scheduler pass
def with_exprs(spec, counter):
    """Replace int leaves by ["expr", n]: at build time these become ident(n) task expressions."""
    k = spec[0]
    if k == "int" and abs(spec[1]) <= 3:
        counter[0] += 1
        return ["expr", spec[1]]
    if k in ("list", "tuple"):
        return [k, [with_exprs(s, counter) for s in spec[1]]]
    if k == "dict":
        return [k, [[a, with_exprs(b, counter)] for a, b in spec[1]]]
    if k == "nt":
        return [k, spec[1], [with_exprs(s, counter) for s in spec[2]]]
    if k == "dc":
        return [k, spec[1], {n: with_exprs(s, counter) for n, s in spec[2].items()}]
    return spec


def build_e(spec, ident):
    if spec[0] == "expr":
        return ident(spec[1])
    k = spec[0]
    if k in ("list", "tuple", "set", "frozenset"):
        seq = [build_e(s, ident) for s in spec[1]]
        return {"list": list, "tuple": tuple, "set": set, "frozenset": frozenset}[k](seq)
    if k == "dict":
        return {build_e(a, ident): build_e(b, ident) for a, b in spec[1]}
    if k == "nt":
        return T.NT[spec[1]](*[build_e(s, ident) for s in spec[2]])
    if k == "dc":
        cls = T.DC[spec[1]]
        init = {f.name: build_e(spec[2][f.name], ident) for f in dataclasses.fields(cls) if f.init and f.name in spec[2]}
        obj = cls(**init)
        for f in dataclasses.fields(cls):
            if not f.init and f.name in spec[2]:
                object.__setattr__(obj, f.name, build_e(spec[2][f.name], ident))
        return obj
    return V.build(spec)


_sched = {}


def get_ident():
    if "ident" not in _sched:
        from redun import task

        @task(namespace="vf_c19", name="ident")
        def ident(x):
            return x + 100

        _sched["ident"] = ident
    return _sched["ident"]


def get_failing():
    if "bad" not in _sched:
        from redun import task

        @task(namespace="vf_c19", name="bad")
        def bad(x):
            raise ValueError(f"bad {x}")

        @task(namespace="vf_c19", name="recover")
        def recover(err):
            return -1

        @task(namespace="vf_c19", name="consume")
        def consume(v):
            return ["consumed", v]

        _sched["bad"] = (bad, recover, consume)
    return _sched["bad"]


def sched_oracle(ctx: Ctx, spec) -> int:
    from redun import Scheduler

    counter = [0]
    espec = with_exprs(spec, counter)
    if not counter[0]:
        return 0
    ident = get_ident()
    v = build_e(espec, ident)
    exp = build_e(espec, lambda n: n + 100)
    sched = Scheduler()
    sched.load()
    try:
        out = sched.run(v)
    except Exception as e:  # noqa: BLE001
        raise Violation(f"scheduler-raises:{type(e).__name__}", f"Scheduler.run on nested value raised {type(e).__name__}: {str(e)[:200]}", espec)
    if not V.deep_typed_equal(out, exp):
        raise Violation("scheduler-nested-differs", f"Scheduler.run gave {out!r}, expected {exp!r}", espec)
    # A nested expression that has ALREADY failed under this parent job (it was handled by a catch
    # just before) must still make the container fail: it is never replaced by its error object.
    if not isinstance(v, (list, tuple, dict)) and not dataclasses.is_dataclass(v):
        return counter[0]
    from redun.functools import seq
    from redun.scheduler import catch

    bad, recover, consume = get_failing()
    first = [None]

    def leaf(n):
        if first[0] is None:
            first[0] = n
        return bad(n) if n == first[0] else ident(n)

    vb = build_e(espec, leaf)
    try:
        out2 = sched.run(seq([catch(bad(first[0]), ValueError, recover), consume(vb)]))
    except ValueError:
        return counter[0]
    except Exception as e:  # noqa: BLE001
        raise Violation(f"scheduler-raises:{type(e).__name__}", f"nested value with a failed expression: {type(e).__name__}: {str(e)[:200]}", espec)
    raise Violation("scheduler-nested-failed-expression-delivered",
                    f"a container holding an expression that had already failed under this job was delivered to a task "
                    f"(result {out2!r:.200}) instead of failing", espec)


def run_case(ctx: Ctx, spec) -> None:
    kinds = V.spec_kinds(spec)
    conts = {k for k in kinds if k.split(":")[0] in ("list", "tuple", "set", "dict", "nt", "dc")}
    nt = V.spec_depth(spec) >= 3 and len(conts) >= 2 and any(k.startswith(("dc", "nt")) for k in conts)
    ctx.case(spec, labels=sorted(kinds), nontrivial=nt)
    oracle(ctx, spec)


def run_sched_case(ctx: Ctx, spec) -> None:
    n = 0
    try:
        n = sched_oracle(ctx, spec)
    finally:
        if n:
            kinds = V.spec_kinds(spec)
            ctx.case({"sched": spec}, labels=["sched"] + [f"sched:{k}" for k in sorted(kinds)],
                     nontrivial=V.spec_depth(spec) >= 2 and any(k.startswith(("dc", "nt")) for k in kinds))


def check(ctx: Ctx) -> None:
    ctx.given(specs, lambda s: run_case(ctx, s), ctx.n(2500, 100000))
    import logging

    logging.getLogger("redun").setLevel(logging.CRITICAL)
    sched_specs = st.recursive(V.leaf_specs, lambda c: V.container_specs(c, sets=False), max_leaves=8)
    ctx.given(sched_specs, lambda s: run_sched_case(ctx, s), ctx.n(150, 3000))


def replay(ctx: Ctx, case) -> None:
    if isinstance(case, dict) and "sched" in case:
        sched_oracle(ctx, case["sched"])
    elif case and case[0] == "expr" or _has_expr(case):
        sched_oracle(ctx, _strip_expr(case))
    else:
        oracle(ctx, case)


def _has_expr(spec) -> bool:
    return "\"expr\"" in __import__("json").dumps(spec)


def _strip_expr(spec):
    k = spec[0]
    if k == "expr":
        return ["int", spec[1]]
    if k in ("list", "tuple"):
        return [k, [_strip_expr(s) for s in spec[1]]]
    if k == "dict":
        return [k, [[a, _strip_expr(b)] for a, b in spec[1]]]
    if k == "nt":
        return [k, spec[1], [_strip_expr(s) for s in spec[2]]]
    if k == "dc":
        return [k, spec[1], {n: _strip_expr(s) for n, s in spec[2].items()}]
    return spec
