"""C29 — script tasks run exactly the given command text, with correct staging.

Part "text": prepare_command / get_command_eof / get_wrapped_command on generated command texts.
Part "staging": script() through the real Scheduler with generated input/output staging structures.
"""
from __future__ import annotations

import os
import shlex
import subprocess
import textwrap

from hypothesis import strategies as st

from vf.core import Ctx, Violation

ID = "C29"
LEVEL = "exploration"
RULE = (
    "text: Hypothesis-generated command texts = optional blank lead/trail lines + a common indent + "
    "lines drawn from a token list rich in EOF/EOF1/EOF2.. (also padded, quoted, as heredoc openers), "
    "$VAR, $(..), backticks, backslashes, quotes, '#!' in the middle, blank/indented/tab-led lines and "
    "trailing whitespace, plus random lines over a small tricky alphabet; with or without a leading "
    "'#!/bin/cat' shebang; eof_prefix in {EOF,E,END}; wrapper run by sh or bash (non-ASCII texts always by bash). Oracle: "
    "prepare_command(c) == dedent(c).strip() when that starts with '#!', else DEFAULT_SHELL + newline + "
    "it; get_command_eof never equals a line of the text; executing get_wrapped_command(text) with a "
    "#!/bin/cat interpreter (given, or passed as default_shell) prints text + newline byte for byte and "
    "exits 0. staging: generated nested list/tuple/dict structures of File/IFile/Dir staging pairs, "
    "self-staged files, one local output file published to a second remote, File('-') and plain values, with file names containing spaces, quotes, $, ;, "
    "*, backslash and backtick; run script() through a real Scheduler (default local executor); the "
    "generated command records every input it finds at its local path and writes token+input content "
    "to every output. Oracle: the record shows every input present with its content; every output "
    "exists at its remote path with the written content; the result is shaped like outputs with "
    "staging pairs replaced by remote File/IFile/Dir (same class, remote path), File('-') by the "
    "command's stdout bytes, other values untouched; without a shebang the command ran under bash. "
    "Non-trivial: text = a line equal to EOF/EOFn, or a quote or $ in the body; staging = >=1 input "
    "and >=2 staged outputs."
)
ASSUMPTIONS = [
    "'the dedented command text' = textwrap.dedent(text).strip() (surrounding blank lines/whitespace are "
    "not part of the command, as prepare_command documents); the heredoc adds one final newline",
    "command texts contain no NUL and are valid UTF-8 (they must pass through argv and a file)",
    "the wrapper is executed by bash (redun's default shell, which is what runs it in script()) and, for "
    "ASCII-only texts, also by /bin/sh; non-ASCII texts are not run under dash because dash's own "
    "here-document reader drops a byte >= 0x80 that follows a prefix of the delimiter",
    "local staging directories and the remote parent directory exist; staged directories do not "
    "pre-exist at their destination (cp -r semantics); names do not start with '-' and contain no ':'",
    "stdout of a script task under the default local executor is bytes (redun/tests/test_script.py)",
]
MANIFEST = {"technique": "differential execution of the generated wrapper (sh/bash) + end-to-end script() runs"}

CAT = "#!/bin/cat"

# ------------------------------------------------------------------------------- part "text"
LINE_TOKENS = [
    "EOF", "EOF", "EOF", "EOF1", "EOF1", "EOF2", "EOF3", "EOF10", "E", "E1", "END", "END1", "EO", "EOFX", "XEOF",
    " EOF", "EOF ", "\tEOF", "EOF\t", "  EOF1", '"EOF"', "'EOF'", "cat <<EOF", 'cat <<"EOF"', 'cat <<"EOF1"',
    "cat <<-EOF", "$HOME", "${HOME}", "$(echo hi)", "`echo hi`", "$((1+2))", "$", "$$", "$?", "$1", "${x:-y}",
    "\\", "a\\", "\\\\", "\\n", "\\$HOME", "\\`", "'", '"', "''", '""', "it's", 'say "hi"', "'$HOME'", '"$HOME"',
    "", "", " ", "  ", "\t", "    indented", "\tx", "\t\ty", "  y  ", "z \t", "#!", "#!/bin/sh", "x #!/bin/sh",
    "# comment", "echo $1", "!", "a;b", "&&", "|", ">", "é", "*", "~", "(", ")", "{", "}", "echo hi", "exit 3",
]
_line_chars = st.sampled_from(list("EOF0123 \t$`\\'\"#!(){}<>-xyé\r"))
blank_st = st.lists(st.sampled_from(["", "", " ", "  ", "\t", "    "]), max_size=2)


@st.composite
def _text_cases(draw):
    prefix = draw(st.sampled_from(["EOF", "EOF", "EOF", "E", "END"]))
    fam = [prefix, prefix + "1", prefix + "2", prefix + "3"]
    line = st.one_of(st.sampled_from(fam), st.sampled_from(fam[:2]), st.sampled_from(LINE_TOKENS),
                     st.sampled_from(LINE_TOKENS), st.text(_line_chars, max_size=8),
                     st.sampled_from(["#!", "#!/bin/sh", "x #!/bin/sh", "echo '#!'", "#! /bin/sh"]))
    return {
        "part": "text",
        "lines": draw(st.lists(line, max_size=10)),
        "indent": draw(st.sampled_from(["", "", "  ", "    ", "        ", "\t", " \t"])),
        "lead": draw(blank_st),
        "trail": draw(blank_st),
        # False = no shebang; True = '#!/bin/cat'; 'space' / 'tab' = the equally valid spellings with
        # whitespace after '#!'
        "shebang": draw(st.sampled_from([False, False, False, True, True, "space", "tab"])),
        "eof_prefix": prefix,
        "shell": draw(st.sampled_from(["sh", "bash"])),
    }


text_cases = _text_cases()


def shebang_line(kind) -> str:
    return {True: CAT, "space": "#! /bin/cat", "tab": "#!\t/bin/cat"}[kind]


def build_text(case: dict) -> str:
    body = ([shebang_line(case["shebang"])] if case["shebang"] else []) + list(case["lines"])
    ind = case["indent"]
    return "\n".join(list(case["lead"]) + [ind + ln for ln in body] + list(case["trail"]))


def _is_eof_line(ln: str, prefix: str) -> bool:
    return ln.startswith(prefix) and (ln == prefix or ln[len(prefix):].isdigit())


def text_oracle(ctx: Ctx, case: dict) -> None:
    from redun import scripting

    c = build_text(case)
    prefix = case["eof_prefix"]
    body = textwrap.dedent(c).strip()
    default_shell = scripting.DEFAULT_SHELL
    ctx.require(default_shell.startswith("#!") and "bash" in default_shell.split("\n")[0],
                "default-shell:not-bash", f"DEFAULT_SHELL is {default_shell!r}", case)
    with ctx.no_raise("prepare_command", case):
        prepared = scripting.prepare_command(c)
    if body.startswith("#!"):
        ctx.require(prepared == body, "prepare:shebang-text",
                    f"text starts with a shebang; expected exactly the dedented text {body!r}, got {prepared!r}", case)
    else:
        want = default_shell.rstrip("\n") + "\n" + body
        ctx.require(prepared == want, "prepare:default-shell",
                    f"no shebang; expected default shell header + dedented text {want!r}, got {prepared!r}", case)

    # The text whose wrapper is executed must be interpreted by /bin/cat.
    if body.startswith("#!"):
        first = body.split("\n", 1)[0]
        exec_text = prepared if first in (CAT, "#! /bin/cat", "#!\t/bin/cat") else None
        want_exec = body
    else:
        with ctx.no_raise("prepare_command", case):
            exec_text = scripting.prepare_command(c, default_shell=CAT)
        want_exec = CAT + "\n" + body
        ctx.require(exec_text == want_exec, "prepare:default-shell",
                    f"default_shell={CAT!r}: expected {want_exec!r}, got {exec_text!r}", case)

    for text in [t for t in (prepared, exec_text) if t is not None]:
        with ctx.no_raise("get_command_eof", case):
            eof = scripting.get_command_eof(text, eof_prefix=prefix)
        ctx.require(isinstance(eof, str) and eof.startswith(prefix) and "\n" not in eof, "eof:malformed",
                    f"terminator {eof!r} for prefix {prefix!r}", case)
        ctx.require(eof not in text.split("\n"), "eof:equals-line",
                    f"terminator {eof!r} equals a line of the command {text!r}", case)

    if exec_text is None:
        ctx.label("text:not-executed")
        return
    with ctx.no_raise("get_wrapped_command", case):
        wrapped = scripting.get_wrapped_command(exec_text, eof_prefix=prefix)
    shell = case["shell"]
    if shell == "sh" and not exec_text.isascii():
        # dash (this box's /bin/sh) itself drops a byte >= 0x80 that follows a prefix of the delimiter in
        # any here-document (`printf 'cat <<"EOF"\nE\xc3\xa9\nEOF\n' | dash` prints E\xa9): not redun's doing,
        # and redun always runs the wrapper under its default shell (bash). Non-ASCII texts go to bash.
        shell = "bash"
        ctx.label("text:non-ascii-routed-to-bash")
    p = subprocess.run([shell, "-c", wrapped], stdin=subprocess.DEVNULL, stdout=subprocess.PIPE,
                       stderr=subprocess.PIPE, env={"PATH": os.environ.get("PATH", "/usr/bin:/bin"), "HOME": "/vf-home"})
    want_bytes = (want_exec + "\n").encode("utf8")
    if p.stdout != want_bytes or p.returncode != 0:
        has_eof = any(_is_eof_line(ln, prefix) for ln in want_exec.split("\n"))
        if p.stdout != want_bytes and want_bytes.startswith(p.stdout) and has_eof:
            key = "wrapper:truncated-at-eof-line"
        elif p.stdout != want_bytes:
            key = "wrapper:bytes-altered"
        else:
            key = "wrapper:exit-status"
        raise Violation(key, f"{shell} -c <wrapper> exit={p.returncode} printed {p.stdout!r}, the command "
                             f"text is {want_bytes!r}; stderr={p.stderr[-200:]!r}", case)


def text_labels(case: dict):
    body = list(case["lines"])
    prefix = case["eof_prefix"]
    n_eof = sum(1 for ln in body if _is_eof_line(ln, prefix))
    joined = "\n".join(body)
    labs = [f"text:shebang={case['shebang']}", f"text:eof-lines={min(n_eof, 3)}", f"text:shell={case['shell']}"]
    if "$" in joined or "`" in joined:
        labs.append("text:expansion-chars")
    if "\\" in joined:
        labs.append("text:backslash")
    if any(ln[:1] == "\t" for ln in body):
        labs.append("text:tab-led-line")
    nt = n_eof > 0 or any(ch in joined for ch in "'\"$")
    return labs, nt


# ------------------------------------------------------------------------------- part "staging"
NAMES = ["a.txt", "b c", "d'e", "f$g", 'h"i', "k;l", "m*n", "o\\p", "q`r", "é", "#s", "t&u", "(v)", "w=x", "~y", "z z.gz"]
contents_st = st.one_of(st.sampled_from(["", "x", "line\n", "two\nlines\n", " sp ", "$HOME", "EOF\n"]),
                        st.text(st.sampled_from(list("ab \n$'\"\\é")), max_size=6))
token_st = st.text(st.sampled_from(list("abcXYZ019 _$'\"\\`;*é%")), max_size=6)
name_st = st.sampled_from(NAMES)
key_st = st.sampled_from(["a", "b", "out", "k 1", "é"])


def _in_leaf():
    return st.one_of(
        st.tuples(st.just("file"), name_st, contents_st, st.sampled_from(["File", "File", "IFile"])).map(list),
        st.tuples(st.just("same"), name_st, contents_st).map(list),
        st.tuples(st.just("dir"), name_st,
                  st.dictionaries(st.sampled_from(["x", "y z", "sub/w"]), contents_st, min_size=1, max_size=2)
                  .map(lambda d: [[k, v] for k, v in sorted(d.items())])).map(list),
    )


def _containers(children, dict_ok=True):
    opts = [st.lists(children, min_size=1, max_size=3).map(lambda xs: ["list", xs]),
            st.lists(children, max_size=2).map(lambda xs: ["tuple", xs])]
    if dict_ok:
        opts.append(st.lists(st.tuples(key_st, children), min_size=1, max_size=3, unique_by=lambda kv: kv[0])
                    .map(lambda kvs: ["dict", [list(kv) for kv in kvs]]))
    return st.one_of(opts)


inputs_st = st.one_of(
    st.lists(_in_leaf(), max_size=3).map(lambda xs: ["list", xs]),
    st.lists(_in_leaf(), min_size=1, max_size=3).map(lambda xs: ["list", xs]),
    st.lists(_in_leaf(), min_size=1, max_size=2).map(lambda xs: ["tuple", xs]),
    _containers(st.recursive(_in_leaf(), _containers, max_leaves=4)),
)


def _out_leaf():
    f = st.tuples(st.just("file"), name_st, st.one_of(st.none(), st.integers(0, 5)), token_st,
                  st.sampled_from(["File", "File", "IFile"])).map(list)
    return st.one_of(
        f, f, f,
        st.tuples(st.just("self"), name_st, st.one_of(st.none(), st.integers(0, 5)), token_st).map(list),
        st.tuples(st.just("dir"), name_st,
                  st.dictionaries(st.sampled_from(["x", "y z", "sub/w"]), token_st, min_size=1, max_size=2)
                  .map(lambda d: [[k, v] for k, v in sorted(d.items())])).map(list),
        # one local file published to a SECOND remote: a further staging pair that shares the
        # local path of an earlier file output of the same call (acts as a plain file if none)
        st.tuples(st.just("mirror"), name_st, st.integers(0, 5)).map(list),
        st.just(["stdout"]),
        st.tuples(st.just("val"), st.one_of(st.none(), st.integers(-3, 3), st.sampled_from(["", "s", "-"]))).map(list),
    )


@st.composite
def _outputs(draw):
    shape = draw(st.sampled_from(["leaf", "list", "dict", "tuple", "nested", "nested", "free", "mirrored"]))
    if shape == "leaf":
        return draw(_out_leaf())
    if shape == "mirrored":
        f = ["file", draw(name_st), draw(st.one_of(st.none(), st.integers(0, 5))), draw(token_st), "File"]
        rest = draw(st.lists(_out_leaf(), max_size=2))
        return ["dict", [["primary", f], ["mirror", ["mirror", draw(name_st), 0]]] + [[f"k{i}", x] for i, x in enumerate(rest)]]
    if shape == "free":
        return draw(_containers(st.recursive(_out_leaf(), _containers, max_leaves=5)))
    leaves = draw(st.lists(_out_leaf(), min_size=2, max_size=4))
    keys = ["a", "b", "out", "k 1"]
    if shape == "list":
        return ["list", leaves]
    if shape == "tuple":
        return ["tuple", leaves]
    if shape == "dict":
        return ["dict", [[keys[i], leaf] for i, leaf in enumerate(leaves)]]
    h = len(leaves) // 2
    return ["list", [["dict", [[keys[i], leaf] for i, leaf in enumerate(leaves[:h])]], ["tuple", leaves[h:]]]]


outputs_st = _outputs()

staging_cases = st.fixed_dictionaries({
    "part": st.just("staging"),
    "inputs": inputs_st,
    "outputs": outputs_st,
    "shebang": st.sampled_from(["none", "none", "sh", "bash", "sh-space"]),
    "tempdir": st.booleans(),
    "indent": st.sampled_from(["", "    ", "\t"]),
})


def _leaves(spec, out):
    k = spec[0]
    if k in ("list", "tuple"):
        for s in spec[1]:
            _leaves(s, out)
    elif k == "dict":
        for _, s in spec[1]:
            _leaves(s, out)
    else:
        out.append(spec)
    return out


def _has_dict(spec) -> bool:
    k = spec[0]
    if k == "dict":
        return True
    if k in ("list", "tuple"):
        return any(_has_dict(s) for s in spec[1])
    return False


class _Plan:
    """Everything derived from a staging case: redun objects, the shell command, expectations."""

    def __init__(self, case: dict, root: str):
        from redun import file as rfile

        self.case = case
        self.R = os.path.join(root, "remote")
        self.L = os.path.join(root, "local")
        os.makedirs(self.R)
        os.makedirs(self.L)
        self.tempdir = case["tempdir"]
        self.rfile = rfile
        self.cmd_in: list[str] = []
        self.cmd_out: list[str] = []
        self.record_expect: list[str] = []
        self.in_files: list[tuple[str, str]] = []   # (local path as seen by the command, content) of file inputs
        self.out_checks: list[tuple[str, str, object]] = []   # (kind, remote path, expected)
        self.n_in = 0
        self.n_out = 0
        self._seq = 0
        self.record_path = os.path.join(root, "record")
        self.inputs = self._build_in(case["inputs"])
        self.expected = None
        self.outputs = None

    def _name(self, base: str) -> str:
        self._seq += 1
        return f"{base}{self._seq}"

    def _local(self, name: str) -> str:
        return name if self.tempdir else os.path.join(self.L, name)

    # -- inputs
    def _build_in(self, spec):
        k = spec[0]
        if k == "list":
            return [self._build_in(s) for s in spec[1]]
        if k == "tuple":
            return tuple(self._build_in(s) for s in spec[1])
        if k == "dict":
            return {key: self._build_in(s) for key, s in spec[1]}
        q = shlex.quote
        i = self.n_in
        self.n_in += 1
        if k in ("file", "same"):
            name = self._name(spec[1])
            remote = os.path.join(self.R, "in-" + name)
            with open(remote, "w", encoding="utf8", newline="") as f:
                f.write(spec[2])
            local = remote if k == "same" else self._local("lin-" + name)
            cls = getattr(self.rfile, spec[3]) if k == "file" else self.rfile.File
            self.in_files.append((local, spec[2]))
            self.cmd_in.append(f"printf 'IN{i}='; if [ -f {q(local)} ]; then cat {q(local)}; else printf MISSING; fi; printf '|'")
            self.record_expect.append(f"IN{i}={spec[2]}|")
            return cls(remote).stage(local)
        if k == "dir":
            name = self._name(spec[1])
            remote = os.path.join(self.R, "ind-" + name)
            local = self._local("lind-" + name)
            for fname, content in spec[2]:
                p = os.path.join(remote, fname)
                os.makedirs(os.path.dirname(p), exist_ok=True)
                with open(p, "w", encoding="utf8", newline="") as f:
                    f.write(content)
                lp = os.path.join(local, fname)
                self.cmd_in.append(f"printf 'IN{i}/%s=' {q(fname)}; if [ -f {q(lp)} ]; then cat {q(lp)}; "
                                f"else printf MISSING; fi; printf '|'")
                self.record_expect.append(f"IN{i}/{fname}={content}|")
            return self.rfile.Dir(remote).stage(local)
        raise ValueError(spec)

    # -- outputs
    def build_out(self):
        self.outputs, self.expected = self._build_out(self.case["outputs"])

    def _src(self, idx):
        if idx is None or not self.in_files:
            return None
        return self.in_files[idx % len(self.in_files)]

    def _build_out(self, spec):
        k = spec[0]
        if k == "list":
            pairs = [self._build_out(s) for s in spec[1]]
            return [p[0] for p in pairs], [p[1] for p in pairs]
        if k == "tuple":
            pairs = [self._build_out(s) for s in spec[1]]
            return tuple(p[0] for p in pairs), tuple(p[1] for p in pairs)
        if k == "dict":
            pairs = {key: self._build_out(s) for key, s in spec[1]}
            return {key: p[0] for key, p in pairs.items()}, {key: p[1] for key, p in pairs.items()}
        q = shlex.quote
        if k in ("file", "self"):
            self.n_out += 1
            name = self._name(spec[1])
            remote = os.path.join(self.R, "out-" + name)
            local = remote if k == "self" else self._local("lout-" + name)
            src = self._src(spec[2])
            token = spec[3]
            write = f"printf '%s' {q(token)}"
            content = token
            if src is not None:
                write += f"; cat {q(src[0])}"
                content += src[1]
            self.cmd_out.append("{ " + write + "; } > " + q(local))
            self.out_checks.append(("file", remote, content))
            if k == "file":
                self.__dict__.setdefault("_staged_files", []).append((local, content))
            cls = getattr(self.rfile, spec[4]) if k == "file" else self.rfile.File
            obj = cls(remote).stage(local) if k == "file" else cls(remote)
            return obj, ("$file", cls.__name__, remote)
        if k == "mirror":
            self.n_out += 1
            name = self._name(spec[1])
            remote = os.path.join(self.R, "outm-" + name)
            staged = getattr(self, "_staged_files", [])
            if not staged:
                return self._build_out(["file", spec[1], None, "m", "File"])
            local, content = staged[spec[2] % len(staged)]
            self.out_checks.append(("file", remote, content))
            return self.rfile.File(remote).stage(local), ("$file", "File", remote)
        if k == "dir":
            self.n_out += 1
            name = self._name(spec[1])
            remote = os.path.join(self.R, "outd-" + name)
            local = self._local("loutd-" + name)
            for fname, token in spec[2]:
                lp = os.path.join(local, fname)
                self.cmd_out.append(f"mkdir -p {q(os.path.dirname(lp))}; printf '%s' {q(token)} > {q(lp)}")
                self.out_checks.append(("file", os.path.join(remote, fname), token))
            return self.rfile.Dir(remote).stage(local), ("$file", "Dir", remote)
        if k == "stdout":
            return self.rfile.File("-"), ("$stdout",)
        if k == "val":
            return spec[1], ("$val", spec[1])
        raise ValueError(spec)

    def command(self) -> str:
        sheb = {"none": [], "sh": ["#!/bin/sh"], "bash": ["#!/usr/bin/env bash"], "sh-space": ["#! /bin/sh"]}[self.case["shebang"]]
        q = shlex.quote
        body = sheb + ["{"] + ["printf 'SH=%s|' \"${BASH_VERSION:+bash}\""] + self.cmd_in + ["} > " + q(self.record_path),
                                                                                           "cat " + q(self.record_path)]
        body += self.cmd_out
        ind = self.case["indent"]
        return "\n" + "\n".join(ind + ln for ln in body) + "\n" + ind


def _cmp_result(ctx: Ctx, got, exp, stdout: bytes, case, path="result"):
    if isinstance(exp, tuple) and exp and exp[0] == "$file":
        _, clsname, remote = exp
        ctx.require(type(got).__name__ == clsname and getattr(got, "path", None) == remote, "result:staging-not-remote",
                    f"{path}: expected remote {clsname}({remote!r}), got {type(got).__name__} "
                    f"path={getattr(got, 'path', None)!r}", case)
        return
    if isinstance(exp, tuple) and exp and exp[0] == "$stdout":
        ctx.require(isinstance(got, bytes) and got == stdout, "result:stdout",
                    f"{path}: File('-') should become the command's stdout {stdout!r}, got {got!r}", case)
        return
    if isinstance(exp, tuple) and exp and exp[0] == "$val":
        ctx.require(type(got) is type(exp[1]) and got == exp[1], "result:plain-value",
                    f"{path}: plain value {exp[1]!r} came back as {got!r}", case)
        return
    ctx.require(type(got) is type(exp), "result:shape", f"{path}: expected a {type(exp).__name__}, got {got!r}", case)
    if isinstance(exp, dict):
        ctx.require(list(got.keys()) == list(exp.keys()), "result:shape", f"{path}: keys {list(got)} != {list(exp)}", case)
        for key in exp:
            _cmp_result(ctx, got[key], exp[key], stdout, case, f"{path}[{key!r}]")
    else:
        ctx.require(len(got) == len(exp), "result:shape", f"{path}: length {len(got)} != {len(exp)}", case)
        for i, (g, e) in enumerate(zip(got, exp)):
            _cmp_result(ctx, g, e, stdout, case, f"{path}[{i}]")


def staging_oracle(ctx: Ctx, case: dict) -> None:
    from redun import script
    from redun.scripting import ScriptError

    from vf.lab import ctl, dbx

    root = ctx.fresh_dir("stg")
    plan = _Plan(case, root)
    plan.build_out()
    command = plan.command()
    try:
        expr = script(command, inputs=plan.inputs, outputs=plan.outputs, tempdir=case["tempdir"])
    except AttributeError as e:
        if "render_stage" in str(e) and _has_dict(case["inputs"]):
            raise Violation("script-inputs:dict-key",
                            f"script(inputs=<structure containing a dict of staging pairs>) raised AttributeError: {e} "
                            f"(dict keys are treated as inputs to stage)", case)
        raise
    sched = ctl.new_scheduler()
    try:
        try:
            with ctx.no_raise("scheduler.run(script(...))", case, allow=(ScriptError,)):
                result = sched.run(expr)
        except ScriptError as e:
            raise Violation("script:failed", f"script() run failed: {e}; stderr tail: {str(e.message)[-400:]!r}", case)
    finally:
        dbx.discard_backend(sched.backend)

    # inputs were staged before the command ran (the command's own record)
    ctx.require(os.path.exists(plan.record_path), "staging:command-did-not-run", "the command left no record file", case)
    with open(plan.record_path, "rb") as f:
        record = f.read()
    sh = "bash" if case["shebang"] in ("none", "bash") else None
    if sh is None and os.path.basename(os.path.realpath("/bin/sh")) == "dash":
        sh = ""
    head, _, rest = record.partition(b"|")
    want_rest = "".join(plan.record_expect).encode("utf8")
    ctx.require(rest == want_rest, "staging:input-not-staged",
                f"the command saw inputs {rest!r}, expected every input at its local path: {want_rest!r}", case)
    if sh is not None:
        key = "shell:default-not-bash" if case["shebang"] == "none" else "shell:shebang-ignored"
        ctx.require(head == b"SH=" + sh.encode(), key, f"shebang={case['shebang']}: interpreter record {head!r}", case)
    # outputs unstaged after the command
    for _, remote, content in plan.out_checks:
        ctx.require(os.path.isfile(remote), "staging:output-missing", f"output {remote!r} does not exist after the run", case)
        with open(remote, "rb") as f:
            got = f.read()
        ctx.require(got == content.encode("utf8"), "staging:output-content",
                    f"output {remote!r} holds {got!r}, the command wrote {content.encode('utf8')!r}", case)
    # result shape
    _cmp_result(ctx, result, plan.expected, record, case)


def staging_labels(case: dict):
    ins = _leaves(case["inputs"], [])
    outs = _leaves(case["outputs"], [])
    n_out = sum(1 for o in outs if o[0] in ("file", "self", "dir"))
    labs = [f"stg:inputs={min(len(ins), 3)}", f"stg:outputs={min(n_out, 3)}", f"stg:shebang={case['shebang']}",
            f"stg:tempdir={case['tempdir']}", f"stg:top-out={case['outputs'][0]}"]
    for kind in sorted({o[0] for o in outs}):
        labs.append(f"stg:out-{kind}")
    for kind in sorted({i[0] for i in ins}):
        labs.append(f"stg:in-{kind}")
    if _has_dict(case["inputs"]):
        labs.append("stg:in-dict")
    return labs, (len(ins) >= 1 and n_out >= 2)


# ------------------------------------------------------------------------------- drivers
def run_case(ctx: Ctx, case: dict) -> None:
    if case["part"] == "text":
        labs, nt = text_labels(case)
        ctx.case(case, labels=labs, nontrivial=nt)
        text_oracle(ctx, case)
    else:
        labs, nt = staging_labels(case)
        ctx.case(case, labels=labs, nontrivial=nt)
        staging_oracle(ctx, case)


def check(ctx: Ctx) -> None:
    ctx.given(text_cases, lambda c: run_case(ctx, c), ctx.n(300, 6400))
    ctx.given(staging_cases, lambda c: run_case(ctx, c), ctx.n(40, 320))


def replay(ctx: Ctx, case: dict) -> None:
    if case["part"] == "text":
        text_oracle(ctx, case)
    else:
        staging_oracle(ctx, case)
