"""C27 — task options follow the documented precedence."""
from __future__ import annotations

from hypothesis import strategies as st

from vf.core import Ctx, Violation
from vf.lab import ctl as C
from vf.lab import dbx
from vf.lab import schedrun

ID = "C27"
LEVEL = "exploration"
RULE = (
    "Generated job trees (depth <=4, fan-out <=2) over three task kinds — no definition options, "
    "definition options (memory/vcpus/flavor), options exported at definition (memory/zone) — where each "
    "call may add call-time options, call-time exported options and expression-valued options "
    "(evaluated by a child job), run with caching on or off (run(cache=False)) and with prov=False "
    "subtrees; in some cases the same process then runs a second tree built from the same Task objects "
    "(independent, or the first with exported call-time options turned into plain ones). Every job body carries a unique marker so each submission seen by the harness executor "
    "is matched to its tree node. Oracle: the formula of docs/source/implementation/evaluation.md "
    "evaluated independently — options(j) = definition(task) | {k: options(parent)[k] for k in "
    "exported(parent)} | call-time(j) | scheduler-imposed, exported(j) = exported(parent) U "
    "task-exported U call-exported — must equal the options the job was submitted with, on the keys "
    "memory, vcpus, flavor, zone, prov, cache_scope. Non-trivial = the same option set at >=2 levels "
    "including an exported one, or an expression-valued option."
)
ASSUMPTIONS = ["options are compared when the job reaches the executor (what it 'runs with')"]
MANIFEST = {"technique": "reference formula vs observed job options over generated job trees (Hypothesis, controlled executor)"}

KEYS = ["memory", "vcpus", "flavor", "zone"]
DEF = {"node": {}, "onode": {"memory": 1, "vcpus": 2, "flavor": "def"}, "xnode": {"memory": 8, "zone": "z-def", "flavor": "xdef"}}
DEF_EXPORT = {"node": set(), "onode": set(), "xnode": {"memory", "zone"}}
vals = st.one_of(st.integers(10, 14), st.sampled_from(["a", "b"]))


@st.composite
def trees(draw):
    uid = [0]

    def node(depth):
        uid[0] += 1
        me = uid[0]
        kids = [node(depth - 1) for _ in range(draw(st.integers(0, 2)))] if depth > 0 else []
        if draw(st.integers(0, 3)) == 0:
            # a bare call of the shared Task object itself (no .options() clone in between)
            return {"uid": me, "t": draw(st.sampled_from(["node", "onode", "xnode", "xnode"])), "options": {}, "export": {},
                    "optexpr": {}, "prov": None, "cache_scope": None, "kids": kids}
        spec = {"uid": me, "t": draw(st.sampled_from(["node", "onode", "xnode"])),
                "options": draw(st.dictionaries(st.sampled_from(KEYS), vals, max_size=2)),
                "export": draw(st.dictionaries(st.sampled_from(KEYS), vals, max_size=2)) if draw(st.integers(0, 2)) == 0 else {},
                "optexpr": {draw(st.sampled_from(KEYS)): draw(st.integers(20, 24))} if draw(st.integers(0, 3)) == 0 else {},
                "prov": False if draw(st.integers(0, 7)) == 0 else None,
                "cache_scope": draw(st.sampled_from([None, None, None, "CSE", "NONE"])),
                "kids": kids}
        if not spec["optexpr"] and draw(st.integers(0, 4)) == 0:
            # an option whose value is a CONTAINER holding an expression (no top-level expression
            # among this job's options): evaluated all the same
            spec["optnest"] = {draw(st.sampled_from(KEYS)): draw(st.integers(30, 34))}
        return spec

    tree = node(draw(st.integers(1, 3)))
    case = {"tree": tree, "cache": draw(st.booleans()), "decisions": draw(st.lists(st.integers(0, 3), max_size=20))}
    # a history: the same process then runs a second tree built from the same Task objects; either an
    # independent one or the first with (some) exported call-time options turned into plain ones
    nxt = draw(st.sampled_from([None, None, "independent", "unexport", "unexport", "alias"]))
    if nxt == "alias":
        # run 1: a task that exports options at definition time is called bare under an ancestor that
        # exports another name K; run 2: the same task is given K as a plain call-time option and has
        # a child: K must not be inherited by that child
        k = draw(st.sampled_from(["vcpus", "flavor"]))
        bare = lambda uid_, kids_: {"uid": uid_, "t": "xnode", "options": {}, "export": {}, "optexpr": {}, "prov": None,  # noqa: E731
                                    "cache_scope": None, "kids": kids_}
        leafn = lambda uid_: {"uid": uid_, "t": "node", "options": {}, "export": {}, "optexpr": {}, "prov": None,  # noqa: E731
                              "cache_scope": None, "kids": []}
        t1 = {"uid": 1, "t": "node", "options": {}, "export": {k: draw(vals)}, "optexpr": {}, "prov": None, "cache_scope": None,
              "kids": [bare(2, [leafn(3)])]}
        t2 = dict(bare(1, [leafn(2)]), options={k: draw(vals)})
        return {"tree": t1, "then": t2, "cache": draw(st.booleans()), "decisions": draw(st.lists(st.integers(0, 3), max_size=10))}
    if nxt == "independent":
        uid[0] = 0
        case["then"] = node(draw(st.integers(1, 3)))
    elif nxt == "unexport":
        def unexport(spec):
            keep = draw(st.booleans()) if spec["export"] else True
            out = dict(spec, kids=[unexport(k) for k in spec["kids"]])
            if not keep:
                out["options"] = {**spec["export"], **spec["options"]}
                out["export"] = {}
            return out

        case["then"] = unexport(tree)
    return case


def to_ast(spec):
    body = ["list", [["lit", ["int", 10000 + spec["uid"]]]] + [to_ast(k) for k in spec["kids"]]]
    o = {}
    if spec["t"] != "node":
        o["t"] = spec["t"]
    opts = dict(spec["options"])
    if spec["prov"] is False:
        opts["prov"] = False
    if spec["cache_scope"]:
        opts["cache_scope"] = spec["cache_scope"]
    if opts:
        o["options"] = opts
    if spec["export"]:
        o["export"] = spec["export"]
    if spec["optexpr"]:
        o["optexpr"] = {k: ["task", ["lit", ["int", v]], {}, {}] for k, v in spec["optexpr"].items()}
    if spec.get("optnest"):
        o["optexpr"] = {k: ["list", [["task", ["lit", ["int", v]], {}, {}]]] for k, v in spec["optnest"].items()}
    return ["task", body, {}, o]


def expected(case) -> dict:
    """uid -> expected options on the compared keys (the documented formula)."""
    from redun.task import CacheScope

    out = {}

    def walk(spec, parent_opts, parent_exported, parent_prov):
        t = spec["t"]
        # call-time settings in the order the harness chains them:
        # t.export_options(**export).options(**options).options(**optexpr) — later calls win
        call = dict(spec["export"])
        call.update(spec["options"])
        call.update(spec["optexpr"])
        call.update({k: [v] for k, v in (spec.get("optnest") or {}).items()})
        if spec["prov"] is False:
            call["prov"] = False
        if spec["cache_scope"]:
            call["cache_scope"] = CacheScope(spec["cache_scope"])
        exported = set(parent_exported) | DEF_EXPORT[t] | set(spec["export"])
        if "prov" in call:
            exported.add("prov")        # documented: provenance option is exported automatically
        inherited = {k: v for k, v in parent_opts.items() if k in parent_exported}
        opts = {**DEF[t], **inherited, **call}
        # scheduler-imposed settings
        if not case["cache"]:
            opts["cache_scope"] = CacheScope.CSE
        if parent_prov is False:
            opts["prov"] = False
        if opts.get("prov", True) is False:
            opts["cache_scope"] = CacheScope.NONE
        out[spec["uid"]] = opts
        for k in spec["kids"]:
            walk(k, opts, exported, opts.get("prov", True))

    walk(case["tree"], {}, set(), True)
    return out


def reset_tasks():
    """Definition-time state of the shared Task objects (the harness resets what it shares between cases)."""
    import vf_tasks

    vf_tasks.node._export_options = set()
    vf_tasks.onode._export_options = set()
    vf_tasks.xnode._export_options = set(DEF_EXPORT["xnode"])


def oracle(ctx: Ctx, case):
    reset_tasks()
    try:
        exp = oracle_one(ctx, case, case)
        if case.get("then"):
            try:
                oracle_one(ctx, dict(case, tree=case["then"]), case)
            except Violation as v:
                if v.key.startswith("option-precedence:"):
                    reset_tasks()
                    try:
                        oracle_one(ctx, dict(case, tree=case["then"]), case)
                    except Violation:
                        raise v
                    raise Violation("history-dependent:" + v.key, "second run in the same process (it is correct when run "
                                    "first): " + v.message, case)
                raise
        return exp
    except Violation as v:
        v.case = case
        raise
    finally:
        reset_tasks()


def oracle_one(ctx: Ctx, case, full_case):
    from redun.task import CacheScope

    ast = to_ast(case["tree"])
    exp = expected(case)
    r = schedrun.run_program(None, decisions=case["decisions"], expr=build(ast), run_kwargs={"cache": case["cache"]})
    if r.kind != "ok":
        from vf.core import redun_frame

        if (case["tree"]["optexpr"] or case["tree"].get("optnest")) and isinstance(r.payload, KeyError) and "record_job_start" in (redun_frame(r.payload) or ""):
            raise Violation("root-task-option-expression", "the root call has an expression-valued option: its option job and the "
                            f"root job both claim the execution record ({r.payload!r} from record_job_start)", case)
        raise Violation("run-failed", f"run ended {r.kind}: {r.payload!r}", case)
    seen = {}
    for sub in r.ctl.submissions:
        a = sub.args[0][0] if sub.args and sub.args[0] else None
        if isinstance(a, list) and a and a[0] == "list" and a[1] and a[1][0][0] == "lit" and a[1][0][1][1] >= 10000:
            seen.setdefault(a[1][0][1][1] - 10000, []).append(sub)
    for uid, want in exp.items():
        subs = seen.get(uid)
        if not subs:
            raise Violation("job-not-submitted", f"tree node {uid} was never submitted", case)
        got = subs[0].options
        for key in KEYS + ["prov", "cache_scope"]:
            g, w = got.get(key), want.get(key)
            if key == "cache_scope":
                g = CacheScope(g) if g is not None else None
            if holds_expression(g):
                raise Violation(f"option-not-evaluated:{key}", f"node {uid}: option {key} reached the executor holding an unevaluated "
                                f"expression: {g!r:.120} (option values that are expressions are evaluated before use)", full_case)
            if g != w:
                raise Violation(f"option-precedence:{key}", f"node {uid} ({find(case['tree'], uid)['t']}): option {key} = {g!r}, "
                                f"documented precedence gives {w!r}; job options {{{', '.join(f'{k}={got.get(k)!r}' for k in KEYS)}}}", case)
    return exp


def holds_expression(v, depth=0) -> bool:
    from redun.expression import Expression

    if isinstance(v, Expression):
        return True
    if depth > 6:
        return False
    if isinstance(v, dict):
        return any(holds_expression(x, depth + 1) for x in list(v.keys()) + list(v.values()))
    if isinstance(v, (list, tuple, set, frozenset)):
        return any(holds_expression(x, depth + 1) for x in v)
    return False


def build(ast):
    import vf_tasks
    from vf.lab.progs import fresh

    a = fresh(ast)
    # the root is a task node itself: compile it as the expression to run
    return vf_tasks.comp(a, {})


def find(spec, uid):
    if spec["uid"] == uid:
        return spec
    for k in spec["kids"]:
        f = find(k, uid)
        if f:
            return f
    return None


def multi_level(spec, key_levels=None, depth=0):
    key_levels = key_levels if key_levels is not None else {}
    for k in list(spec["options"]) + list(spec["export"]) + list(spec["optexpr"]) + list(DEF[spec["t"]]):
        key_levels.setdefault(k, set()).add(depth)
    for c in spec["kids"]:
        multi_level(c, key_levels, depth + 1)
    return key_levels


def has(spec, field):
    return bool(spec[field]) or any(has(k, field) for k in spec["kids"])


def run_case(ctx: Ctx, case) -> None:
    try:
        oracle(ctx, case)
    finally:
        lv = multi_level(case["tree"])
        multi = any(len(v) >= 2 for v in lv.values())
        exported = has(case["tree"], "export") or "xnode" in repr(case["tree"])
        ctx.case(case, labels=[f"cache:{case['cache']}", "history" if case.get("then") else "single-run", "exported" if exported else "no-export",
                               "optexpr" if has(case["tree"], "optexpr") else "no-optexpr",
                               "noprov" if "'prov': False" in repr(case["tree"]) else "prov"],
                 nontrivial=(multi and exported) or has(case["tree"], "optexpr"))


def check(ctx: Ctx) -> None:
    C.quiet_logs()
    ctx.given(trees(), lambda c: run_case(ctx, c), ctx.n(450, 8000))


def replay(ctx: Ctx, case) -> None:
    C.quiet_logs()
    oracle(ctx, case)
