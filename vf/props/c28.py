"""C28 — dry runs execute nothing and predict the real run."""
from __future__ import annotations

import shutil

from hypothesis import strategies as st

from vf.core import Ctx, Violation
from vf.lab import ctl as C
from vf.lab import dbx
from vf.lab import schedrun
from vf.props import c02

ID = "C28"
LEVEL = "exploration"
RULE = (
    "The C02 history generator (program family with code edits, version bumps, reverts, argument "
    "changes, input-file rewrites, runs; default and shallow validity; some tasks with prov=False, "
    "cache=False or an executor name that is not configured) produces backends that are "
    "empty, partially cached, fully cached or stale after edits. Before every real run of the history "
    "the backend file is copied twice: a dry run (Scheduler.run(dryrun=True)) is made on the first "
    "copy under the harness executor, a real run on the second. Oracle: during the dry run no task "
    "function is called and nothing is submitted to an executor; if the dry run returns a value the "
    "real run returns the same value; if it raises DryRunResult the real run calls at least one task "
    "function; any other exception from the dry run must also be what the real run raises. "
    "Non-trivial = the backend was partially cached at the time of the dry run (the real run "
    "executes some but not all of the program's calls)."
)
ASSUMPTIONS = ["the dry run and the real run start from byte-identical copies of the backend file"]
MANIFEST = {"technique": "differential dry run vs real run on copied backends over generated histories (Hypothesis, controlled executor)"}


@st.composite
def cases(draw):
    """C02 histories in which some tasks additionally do not record provenance or are never cached."""
    case = draw(c02.cases(shallow_prob=4))
    extra = {}
    for i in range(case["n"]):
        k = draw(st.sampled_from([None, None, None, None, None, "prov", "cache", "nope"]))
        if k == "nope":
            extra[i] = {"executor": "nope"}      # rejected by the scheduler before any executor sees it
        elif k:
            extra[i] = {k: False}

    def dress(i, v):
        if i in extra:
            v = dict(v)
            v["opts"] = {**(v.get("opts") or {}), **extra[i]}
        return v

    if draw(st.integers(0, 3)) == 0 and case["n"] >= 4:
        # a workflow that is rejected on the scheduler's side with every task cached: the root's
        # result subscripts an int lazily. The first real run fails but leaves everything cached.
        case["init"][0] = {"k": "sub", "callee": 1}
        case["ops"] = [["run", []]] + [o for o in case["ops"] if not (o[0] == "install" and o[1] == 0)][:5]
        if case["ops"][-1][0] != "run":
            case["ops"].append(["run", []])
    case["init"] = [dress(i, v) for i, v in enumerate(case["init"])]
    case["ops"] = [[op[0], op[1], dress(op[1], op[2])] if op[0] == "install" else op for op in case["ops"]]
    return case


def copy_backend(backend):
    src = backend.db_uri[len("sqlite:///"):]
    backend.session.commit()
    dst = dbx.new_db_path()
    shutil.copyfile(src, dst)
    return dbx.open_backend(dst)


def oracle(ctx: Ctx, case):
    from redun.scheduler import DryRunResult

    stats = {"dry": 0, "complete": 0, "early": 0, "partial": 0}

    def hook(fam, backend, arg, op):
        b1 = copy_backend(backend)
        b2 = copy_backend(backend)
        try:
            fam.calls.clear()
            d = schedrun.run_program(None, decisions=op[1], expr=fam.root_expr(arg), backend=b1, run_kwargs={"dryrun": True})
            dry_calls = sum(fam.calls.values())
            stats["dry"] += 1
            if dry_calls or d.ctl.submissions:
                raise Violation("dryrun-executed", f"dry run called {dry_calls} task functions and submitted "
                                f"{len(d.ctl.submissions)} jobs", case)
            fam.calls.clear()
            r = schedrun.run_program(None, decisions=op[1], expr=fam.root_expr(arg), backend=b2)
            real_calls = sum(fam.calls.values())
            fam.calls.clear()
            fresh = schedrun.run_program(None, decisions=[], expr=fam.root_expr(arg))
            fresh_calls = sum(fam.calls.values())
            if 0 < real_calls < fresh_calls:
                stats["partial"] += 1
            if d.kind == "ok":
                stats["complete"] += 1
                if r.kind != "ok" or r.payload != d.payload:
                    raise Violation("dryrun-wrong-prediction", f"dry run returned {d.payload!r} but the real run gives {r.kind} {r.payload!r}", case)
                if real_calls:
                    raise Violation("dryrun-completed-but-real-executes", f"dry run completed, yet the real run called {real_calls} task functions", case)
            elif d.kind == "err" and isinstance(d.payload, DryRunResult):
                stats["early"] += 1
                if real_calls == 0:
                    raise Violation("dryrun-stopped-but-nothing-to-run", f"dry run stopped early but the real run executed nothing (result {r.kind} {r.payload!r})", case)
            elif d.kind == "err":
                if r.kind != "err" or type(r.payload) is not type(d.payload):
                    raise Violation("dryrun-error-differs", f"dry run raised {d.payload!r}, real run gives {r.kind} {r.payload!r}", case)
            else:
                raise Violation("dryrun-stuck", f"dry run ended {d.kind}: {d.payload}", case)
        finally:
            dbx.discard_backend(b1)
            dbx.discard_backend(b2)

    c02.run_history(ctx, case, dryrun_hook=hook, compare=False)
    return stats


def run_case(ctx: Ctx, case) -> None:
    stats = None
    try:
        stats = oracle(ctx, case)
    finally:
        labels = []
        if stats:
            labels = [k for k in ("complete", "early", "partial") if stats[k]]
            labels += sorted({f"opt:{k}" for v in case["init"] for k in (v.get("opts") or {})})
        ctx.case(case, labels=labels, nontrivial=bool(stats and stats["partial"]))


def check(ctx: Ctx) -> None:
    C.quiet_logs()
    ctx.given(cases(), lambda c: run_case(ctx, c), ctx.n(60, 1600))


def replay(ctx: Ctx, case) -> None:
    C.quiet_logs()
    oracle(ctx, case)
