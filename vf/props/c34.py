"""C34 — tag values survive display (format_tag_value) and re-parsing (parse_tag_value)."""
from __future__ import annotations

import math

from hypothesis import strategies as st

from vf.core import Ctx, Violation

ID = "C34"
LEVEL = "exploration"
RULE = (
    "Hypothesis-generated JSON values: None/bool/ints up to 1e100/finite floats (incl. single-digit-mantissa powers of ten, whose display has no decimal point)/strings from a strategy "
    "biased to leading '[' '{' '\"', digit- and literal-looking text ('1_000', 'nan', 'true', '1e5', "
    "unicode digits, surrounding whitespace), and lists/dicts of those. Oracle: format_tag_value(v) "
    "never raises and parse_tag_value(format_tag_value(v)) equals v with bool/int/float/str type "
    "preserved at every level. Non-trivial = a string starting with [ { \" or parsing as a number/"
    "literal, or a container holding one."
)
ASSUMPTIONS = ["JSON-compatible = None, bool, int, finite float, str (no lone surrogates), list, str-keyed dict"]
MANIFEST = {"technique": "round-trip property (Hypothesis; atheris campaign in the thorough tier)"}

tricky = st.sampled_from([
    "[", "{", '"', "[abc", "{a", '"abc"', '"a', '""', "[]", "{}", "[1, 2]", '{"a": 1}', '"1"', "1", "-1", "1.5",
    "1e5", "1_000", "nan", "NaN", "inf", "-inf", "Infinity", "true", "false", "null", "True", "None", " 1", "1 ",
    "\t1", "1\n", "０", "١٢", "0x10", "1,2", "a b", "a,b", "", " ", ",", "a=b", "+1", ".5", "5.", "1e", "--1",
])
chars = st.one_of(st.sampled_from(list('[{"]} ,:0123456789.-+eE_ntf\\\n\t')),
                  st.characters(exclude_categories=["Cs"]))
strings = st.one_of(tricky, st.text(chars, max_size=8),
                    st.tuples(st.sampled_from(["[", "{", '"', "1", "-", ""]), st.text(chars, max_size=5)).map("".join))
scalars = st.one_of(
    st.none(), st.booleans(), st.integers(-(10**100), 10**100), st.integers(-3, 3),
    st.floats(allow_nan=False, allow_infinity=False), strings,
    # floats whose shortest repr is exponent notation WITHOUT a decimal point (1e+16, -4e+300, 1e-05),
    # small-integer-valued and very small/large floats
    st.builds(lambda m, e, sg: sg * float(f"{m}e{e}"), st.integers(1, 9), st.integers(-320, 307), st.sampled_from([1, -1])),
    st.builds(float, st.integers(-5, 5)),
)
values = st.recursive(
    scalars,
    lambda c: st.one_of(st.lists(c, max_size=4), st.dictionaries(strings, c, max_size=3)),
    max_leaves=8,
)


def typed_eq(a, b) -> bool:
    if type(a) is not type(b):
        return False
    if isinstance(a, list):
        return len(a) == len(b) and all(typed_eq(x, y) for x, y in zip(a, b))
    if isinstance(a, dict):
        return a.keys() == b.keys() and all(typed_eq(a[k], b[k]) for k in a)
    if isinstance(a, float):
        return a == b and math.copysign(1, a) == math.copysign(1, b)
    return a == b


def interesting_str(s) -> bool:
    if not isinstance(s, str):
        return False
    if s[:1] in ("[", "{", '"'):
        return True
    for f in (int, float):
        try:
            f(s)
            return True
        except ValueError:
            pass
    return s in ("true", "false", "null", "")


def any_leaf(v, pred) -> bool:
    if isinstance(v, list):
        return any(any_leaf(i, pred) for i in v)
    if isinstance(v, dict):
        return any(pred(k) or any_leaf(i, pred) for k, i in v.items())
    return pred(v)


def classify(v) -> str:
    if isinstance(v, str):
        if v[:1] == '"':
            return "quote"
        if v[:1] in ("[", "{"):
            return "bracket"
        return "plain"
    return type(v).__name__


def oracle(ctx: Ctx, v) -> None:
    from redun.tags import format_tag_value, parse_tag_value

    try:
        text = format_tag_value(v)
    except Exception as e:  # noqa: BLE001
        raise Violation(f"format-raises:{classify(v)}", f"format_tag_value({v!r}) raised {type(e).__name__}: {e}", v)
    ctx.require(isinstance(text, str), "format-not-str", f"format_tag_value returned {type(text)}", v)
    try:
        back = parse_tag_value(text)
    except Exception as e:  # noqa: BLE001
        raise Violation(f"parse-raises:{classify(v)}", f"parse_tag_value({text!r}) raised {type(e).__name__}: {e}", v)
    if not typed_eq(back, v):
        raise Violation(f"roundtrip:{classify(v)}", f"{v!r} displays as {text!r} which parses to {back!r}", v)


def run_case(ctx: Ctx, v) -> None:
    ctx.case(v, labels=[f"top:{classify(v)}"], nontrivial=any_leaf(v, interesting_str))
    oracle(ctx, v)


def check(ctx: Ctx) -> None:
    ctx.given(values, lambda v: run_case(ctx, v), ctx.n(5000, 400000))
    if ctx.thorough:
        from vf.lab import fuzz

        fuzz.atheris_campaign(ctx, "vf.props.c34", runs=ctx.n(20000, 300000))


def fuzz_entry():
    import hypothesis

    ctx = Ctx(ID, "thorough", 0)

    @hypothesis.settings(database=None, deadline=None)
    @hypothesis.given(values)
    def t(v):
        run_case(ctx, v)

    return t.hypothesis.fuzz_one_input, ctx


def replay(ctx: Ctx, case) -> None:
    oracle(ctx, case)
