"""C11 — the job arrayer hands off every job exactly once (controlled interleavings)."""
from __future__ import annotations

import types

from hypothesis import strategies as st

from vf.core import Ctx, HarnessError, Violation, redun_frame, shard_range
from vf.lab import interleave as IL

ID = "C11"
LEVEL = "exploration"
SHARDS = 16
RULE = (
    "redun.job_array.JobArrayer (real add_job / start / _monitor_stale_jobs / get_stale_descrs / "
    "submit_pending_jobs) with recording submit_jobs / on_error callbacks, its `threading` and `time` "
    "replaced by interleaver proxies (virtual clock). Cases: min/max array size (incl. arraying off), "
    "stale_time, interval, 1-2 caller threads each running a generated list of add(group) / sleep(dt) "
    "operations (groups = task x options, one script task; group sizes around min/max), and a schedule: "
    "preemptions at bytecode-instruction granularity inside add_job, get_stale_descrs and "
    "submit_pending_jobs (instructions touching only frame-local state are skipped) and line "
    "granularity in the monitor loop; a timed wait may fire at any point. After the callers finish the "
    "clock runs on for stale_time + (jobs+3) intervals, then stop(). Thorough: every schedule with <= 2 "
    "preemptions of three fixed job streams (4 jobs one caller; 3 jobs two callers; 4 same-group jobs with "
    "max 2 so that the put-back branch runs while another add arrives) plus Hypothesis-drawn streams/schedules (<= 4 preemptions); "
    "quick: <= 1 preemption exhaustively on those streams plus Hypothesis. Oracle (the statement): on_error "
    "never called and no exception escapes a thread; every batch non-empty, homogeneous in (task, "
    "options), len <= max, len == 1 or len >= min; every added job in exactly one batch; finally "
    "num_pending == jobs added to the pool - jobs handed off. Non-trivial = a step of add_job executed "
    "while the monitor was inside get_stale_descrs or between the load and the store of its "
    "num_pending update."
)
ASSUMPTIONS = [
    "thread switches are possible between any two bytecode instructions of the three pool methods (true for "
    "CPython <= 3.10 and free-threaded builds; CPython 3.11/3.12 switch only at calls/backward jumps, which still "
    "admits each reported interleaving — see the finding notes)",
    "submit_jobs / on_error callbacks do not call back into the arrayer",
    "stop() is called after the additions (shutdown), and possibly once before the first addition (an idle "
    "arrayer stopped at the end of an earlier execution), as the executors do",
]
MANIFEST = {"technique": "stateless model checking of real threads at bytecode granularity (sys.monitoring "
                         "INSTRUCTION events) + Hypothesis-generated job streams and schedules"}

NS = types.SimpleNamespace
GROUPS = [("vf.a", {}, False), ("vf.a", {"memory": 2}, False), ("vf.b", {}, False), ("vf.s", {}, True)]
POOL_FUNCS = ("add_job", "get_stale_descrs", "submit_pending_jobs")

_ready = [False]


class FJob:
    """What JobDescription / JobArrayer read from a Job: task.fullname, task.script, get_options()."""

    def __init__(self, key, g: int):
        name, opts, script = GROUPS[g]
        self.key = key
        self.g = g
        self.task = NS(fullname=name, script=script)
        self._opts = opts

    def get_options(self) -> dict:
        return dict(self._opts)

    def __repr__(self):
        return f"J{self.key}"


def setup() -> None:
    if _ready[0]:
        return
    from redun.job_array import JobArrayer as JA

    IL.watch([JA.add_job, JA.get_stale_descrs, JA.submit_pending_jobs], instr=True)
    IL.watch([JA._monitor_stale_jobs, JA.start, JA.stop])
    _ready[0] = True


class Outcome:
    pass


def run_case(ctx: Ctx, case: dict) -> Outcome:
    setup()
    import redun.job_array as ja

    callers = case["callers"]
    njobs = sum(1 for ops in callers for op in ops if op[0] == "add")
    tail = case["stale"] + (njobs + 3) * case["interval"] + 0.5
    run = IL.Run(case.get("schedule", ()), max_steps=20000, relative=bool(case.get("rel")))
    out = Outcome()
    out.batches, out.errors, out.added, out.caller_errors = [], [], [], []
    with IL.install(run, [ja]):
        arr = ja.JobArrayer(
            lambda jobs: out.batches.append([(j.key, j.g) for j in jobs]),
            lambda err: out.errors.append(err),
            submit_interval=case["interval"], stale_time=case["stale"],
            min_array_size=case["min"], max_array_size=case["max"])

        def caller(i):
            def body():
                if i == 0 and case.get("prestop"):
                    # the executor was shut down while idle (Scheduler.run stops every executor at
                    # the end of an execution, used or not) and is used again afterwards
                    arr.stop()
                for n, op in enumerate(callers[i]):
                    if op[0] == "add":
                        job = FJob(f"{i}.{n}", op[1])
                        out.added.append(job)
                        try:
                            arr.add_job(job)
                        except Exception as e:  # noqa: BLE001 - reported by the oracle; the caller goes on
                            out.caller_errors.append((i, e))
                    elif op[0] == "sleep":
                        run.sleep(op[1])
                    else:
                        raise HarnessError(f"bad op {op}")
                if i == 0:
                    for t in run.threads[1:len(callers)]:
                        if t.state != "done":
                            run.wait_for("join", t, None)
                    run.sleep(tail, preemptible=False)      # let everything go stale, undisturbed
                    arr.stop()
            return body

        run.go([caller(i) for i in range(len(callers))], [f"caller{i}" for i in range(len(callers))])
    out.run = run
    out.arr = arr
    analyse(case, out)
    return out


def analyse(case: dict, out: Outcome) -> None:
    """From the trace: lost-update patterns on num_pending and the non-triviality rule."""
    from redun.job_array import JobArrayer as JA

    run = out.run
    info = {f: IL.instr_info(getattr(JA, f)) for f in POOL_FUNCS}
    ncallers = len(case["callers"])
    open_load: dict[int, str] = {}      # tid -> function in which it loaded num_pending
    out.lost_updates = []               # (loser function, overwritten function)
    out.nontrivial = False
    for (step, tid, ev_from, ev_to, state), pos in run.positions():
        if ev_from[0] != "I":
            continue
        func, off = ev_from[1], ev_from[2]
        op = info.get(func, {}).get(off)
        if func == "add_job" and tid < ncallers:
            for t2, p in pos.items():
                if t2 >= ncallers and p[0] == "I" and p[1] == "get_stale_descrs":
                    out.nontrivial = True
            if any(t2 >= ncallers for t2 in open_load):
                out.nontrivial = True
        if op is None or op[1] != "num_pending":
            continue
        if op[0] == "LOAD_ATTR":
            open_load[tid] = func
        elif op[0] == "STORE_ATTR":
            for t2, f2 in open_load.items():
                if t2 != tid:
                    out.lost_updates.append((f2, func))
            open_load.pop(tid, None)


def oracle(ctx: Ctx, case: dict, out: Outcome) -> None:
    run, arr = out.run, out.arr
    if run.status != "done":
        raise HarnessError(f"run ended with status {run.status}: {run.blocked()} for {case}")
    mn, mx = case["min"], min(case["max"], 10000)
    # 1. the monitor never fails
    for err in out.errors:
        where = (redun_frame(err) or "?:?").split(":")[-1]
        raise Violation(f"monitor-error:{where}:{type(err).__name__}",
                        f"on_error was called with {type(err).__name__}: {err} (raised in {where}); the monitor "
                        f"thread is dead, {sum(len(v) for v in arr.pending.values())} job(s) left in the pool", case)
    for i, err in out.caller_errors:
        where = redun_frame(err)
        if where is None:
            raise HarnessError(f"harness exception in caller {i}: {err!r}") from err
        raise Violation(f"exc:add_job:{type(err).__name__}@{where}",
                        f"add_job raised {type(err).__name__}: {err} in caller thread {i}", case)
    for t in run.threads:
        if t.error is not None:
            where = redun_frame(t.error)
            if where is None or t.idx < len(case["callers"]):
                raise HarnessError(f"harness exception in thread {t.name}: {t.error!r}") from t.error
            raise Violation(f"exc:monitor:{type(t.error).__name__}@{where}",
                            f"{type(t.error).__name__}: {t.error} escaped the monitor thread", case)
    # 2. batch shape
    for b in out.batches:
        if len(b) == 0:
            raise Violation("batch-size:empty", f"submit_jobs was called with an empty batch; batches={out.batches}", case)
        if len({g for _, g in b}) != 1:
            raise Violation("batch-mixed", f"batch {b} mixes (task, options) groups", case)
        if len(b) > mx:
            raise Violation("batch-size:over-max", f"batch of {len(b)} jobs > max_array_size={mx}: {b}", case)
        if len(b) != 1 and len(b) < mn:
            raise Violation("batch-size:below-min", f"batch of {len(b)} jobs is neither 1 nor >= min_array_size={mn}: {b}", case)
    # 3. exactly once
    seen: dict = {}
    for b in out.batches:
        for k, _ in b:
            seen[k] = seen.get(k, 0) + 1
    dup = [k for k, n in seen.items() if n > 1]
    if dup:
        raise Violation("job-duplicated", f"jobs {dup} were handed off more than once; batches={out.batches}", case)
    missing = [j.key for j in out.added if j.key not in seen]
    if missing:
        raise Violation("job-not-submitted", f"jobs {missing} were added but never handed off although the clock ran "
                        f"stale_time + {len(out.added) + 3} intervals past the last addition; pool={dict(arr.pending)} "
                        f"batches={out.batches}", case)
    # 4. the counter
    pooled = [j for j in out.added if not GROUPS[j.g][2] and mn]
    expect = len(pooled) - sum(1 for j in pooled if j.key in seen)
    if arr.num_pending != expect:
        kinds = sorted(set(out.lost_updates))
        if any(a != b for a, b in kinds):
            key = "num_pending-lost-update"
        elif kinds:
            key = "num_pending-lost-update:add_job-vs-add_job"
        else:
            key = "num_pending-mismatch"
        raise Violation(key, f"after all activity stopped num_pending={arr.num_pending} but {len(pooled)} jobs were "
                        f"pooled and {len(pooled) - expect} of them handed off (expected {expect}); interleaved "
                        f"load/store pairs on num_pending (loser, overwritten): {kinds}", case)
    if any(arr.pending.values()):
        raise Violation("pool-not-empty", f"pool still holds {dict(arr.pending)}", case)


def labels_of(case: dict, out: Outcome) -> list:
    run = out.run
    labs = [f"callers={len(case['callers'])}", f"pre={min(len(run.effective), 5)}", f"min={case['min']}",
            f"batches={min(len(out.batches), 6)}"]
    if any(len(b) > 1 for b in out.batches):
        labs.append("array-batch")
    if len(run.threads) > len(case["callers"]) + 1:
        labs.append(f"monitors={len(run.threads) - len(case['callers'])}")
    if out.lost_updates:
        labs.append("interleaved-counter-update")
    if out.nontrivial:
        labs.append("add-inside-monitor-critical-region")
    return labs


def check_case(ctx: Ctx, case: dict) -> Outcome:
    out = run_case(ctx, case)
    try:
        oracle(ctx, case, out)
    except Violation as v:
        if case.get("rel"):
            v.case = {k: x for k, x in case.items() if k != "rel"}
            v.case["schedule"] = [list(p) for p in out.run.effective]
        elif v.case is None:
            v.case = case
        if not ctx.absorb(v):
            raise
        ctx.label("known:" + v.key)
    finally:
        ctx.case(case, labels=labels_of(case, out), nontrivial=out.nontrivial)
    return out


# ------------------------------------------------------------------------------------------ cases
STREAM4 = {"min": 2, "max": 2, "stale": 2.0, "interval": 1.0,
           "callers": [[["add", 0], ["sleep", 3.5], ["add", 0], ["add", 1], ["add", 0], ["sleep", 1.2]]]}


STREAM2C = {"min": 2, "max": 2, "stale": 1.0, "interval": 1.0,
            "callers": [[["add", 0], ["sleep", 2.5], ["add", 1]], [["add", 0]]]}
# three same-group jobs with max 2 (the monitor submits two and puts one back) while a second caller's
# add is still asleep (its timer may fire at any point)
STREAMREM = {"min": 2, "max": 2, "stale": 1.0, "interval": 1.0,
             "callers": [[["add", 0], ["add", 0], ["add", 0]], [["sleep", 5.0], ["add", 0]]]}
STREAMS = {"stream4": STREAM4, "two-callers": STREAM2C, "remainder": STREAMREM}


def stream_case(schedule: list, which: str = "stream4") -> dict:
    return dict(STREAMS[which], schedule=schedule)


@st.composite
def gen_cases(draw):
    mn = draw(st.sampled_from([0, 2, 2, 2, 2, 3, 3, 2]))
    mx = draw(st.integers(max(mn, 1), max(mn, 1) + 2))
    interval = draw(st.sampled_from([0.5, 1.0]))
    stale = draw(st.sampled_from([0.0, 1.0, 2.5]))
    ncallers = draw(st.integers(1, 2))
    callers = []
    for _ in range(ncallers):
        ops = draw(st.lists(st.one_of(
            st.tuples(st.just("add"), st.sampled_from([0, 0, 0, 1, 2, 3])),
            st.tuples(st.just("sleep"), st.sampled_from([0.3, 1.0, 2.6, 4.0]))),
            min_size=1, max_size=7 if ncallers == 1 else 4))
        callers.append([list(o) for o in ops])
    if not any(op[0] == "add" for ops in callers for op in ops):
        callers[0].append(["add", 0])
    horizon = draw(st.sampled_from([25, 60, 60, 150, 300]))     # decision points vary a lot with the stream
    schedule = draw(IL.schedules(4, horizon, 4, min_pre=1))
    return {"min": mn, "max": mx, "stale": stale, "interval": interval, "callers": callers,
            "schedule": schedule, "rel": True,
            # (only with one caller: a stop() racing with another thread's add_job is the executors'
            # shutdown window, C10's subject)
            "prestop": ncallers == 1 and draw(st.sampled_from([False, False, True]))}


def check(ctx: Ctx) -> None:
    first = ctx.shard is None or ctx.shard == 0
    depth = 2 if ctx.thorough else 1
    total = 0
    for which in STREAMS:
        root = (check_case if first else run_case)(ctx, stream_case([], which))
        IL.assert_deterministic(lambda s: run_case(ctx, stream_case(s, which)).run, [], times=2)
        level1 = IL.children(root.run, [])
        mine = shard_range(ctx, level1)
        total += IL.explore(lambda s: check_case(ctx, stream_case(s, which)).run, depth, roots=mine)
        total += 1 if first else 0
        if mine:
            IL.assert_deterministic(lambda s: run_case(ctx, stream_case(s, which)).run,
                                    mine[len(mine) // 2], times=2)
    ctx.coverage_extra["schedules_enumerated"] = total
    if ctx.thorough:
        ctx.coverage_extra["exhaustive"] = True
        ctx.coverage_extra["exhaustive_scope"] = ("all schedules with <= 2 preemptions of the fixed job streams "
                                                  "STREAM4 (one caller, 4 jobs), STREAM2C (two callers, 3 jobs) and STREAMREM "
                                                  "(two callers, 4 jobs of one group, max 2: the put-back branch)")
    ctx.given(gen_cases(), lambda c: check_case(ctx, c), ctx.n(2500, 32000))


def replay(ctx: Ctx, case) -> None:
    out = run_case(ctx, case)
    oracle(ctx, case, out)
