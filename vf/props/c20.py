"""C20 — the recorded call graph is a consistent Merkle record of the run."""
from __future__ import annotations

from hypothesis import strategies as st

from vf.core import Ctx, Violation
from vf.lab import ctl as C
from vf.lab import dbx
from vf.lab import progs as P
from vf.lab import schedrun

ID = "C20"
LEVEL = "exploration"
RULE = (
    "Generated programs (the C01 grammar incl. failures, duplicate calls, apply_tags, prov=False "
    "subtrees) run under generated completion schedules on a file-backed backend, optionally "
    "followed by a cached re-execution; then the WHOLE database is audited: every Job row that "
    "finished has a CallNode; every CallNode's call_hash equals hash_call_node(task_hash, "
    "args_hash, value_hash, child call hashes) with children read back from CallEdge (when all "
    "children were recorded); Job.parent_id / Execution.job_id mirror the job tree the harness "
    "observed, and a CallEdge exists for every recorded parent/child job pair; every Value row "
    "deserialises to a value whose recomputed hash is its key; Job tags and Value tags created by "
    "apply_tags sit on the job whose body applied them / on the hash of the tagged value; nothing "
    "beneath a prov=False job is recorded. Non-trivial = execution with >=3 jobs and one of "
    "{failure, duplicate, cached replay, tag, prov=False}."
)
ASSUMPTIONS = ["children of a call are the child jobs that finished with provenance (statement: 'every job that finished with provenance')"]
MANIFEST = {"technique": "full-database audit after generated programs x schedules (Hypothesis, controlled executor)"}


@st.composite
def tag_programs(draw):
    n = draw(st.integers(1, 3))
    items = []
    for i in range(n):
        inner = draw(st.sampled_from([["lit", ["int", i + 10]], ["op", "add", ["task", ["lit", ["int", i]], {}, {}], ["lit", ["int", 5]]],
                                      ["list", [["lit", ["int", i]], ["lit", ["str", "s"]]]]]))
        vt = [["tk", draw(st.integers(0, 3))]] if draw(st.booleans()) else []
        jt = [["jk", f"v{i}"]] if draw(st.booleans()) else []
        items.append(["task", ["tags", inner, vt, jt], {}, {}])
    if draw(st.booleans()):
        items.append(items[0])
    # job tags given as a task option (definition/call time) must be on EVERY job of that call,
    # including duplicates served by CSE and cached replays
    for i in range(draw(st.integers(0, 2))):
        call = ["task", ["lit", ["int", 40 + i]], {}, {"tags": [["ot", f"o{i}"]]}]
        if draw(st.booleans()):
            call[3]["check_valid"] = "shallow"
        items.append(call)
        if draw(st.booleans()):
            items.append(["task", ["task", ["lit", ["int", 40 + i]], {}, {"tags": [["ot", f"p{i}"]]}], {}, {}])   # same call, other parent, other tag
    return ["list", items]


@st.composite
def noprov_programs(draw):
    inner = ["list", [["task", ["lit", ["int", draw(st.integers(0, 3))]], {}, {}],
                      ["task", ["op", "add", ["task", ["lit", ["int", 1]], {}, {}], ["lit", ["int", 1]]], {}, {}]]]
    hidden = ["task", inner, {}, {"prov": False}]
    return ["list", [hidden, ["task", ["lit", ["int", 7]], {}, {}], ["task", hidden, {}, {}] if draw(st.booleans()) else ["lit", ["int", 0]]]]


@st.composite
def twin_child_programs(draw):
    """One parent whose children include the SAME call node more than once, reached through
    different expressions (an argument given as a value or computed by another task): the repeats
    are answered by CSE, and the parent's CallEdge rows list the child once per call."""
    v = draw(st.integers(0, 3))
    body = draw(st.sampled_from([["var", "a"], ["op", "add", ["var", "a"], ["lit", ["int", 1]]], ["list", [["var", "a"], ["lit", ["int", 7]]]]]))
    plain = ["task", body, {"a": ["lit", ["int", v]]}, {}]
    via_task = ["task", body, {"a": ["task", ["lit", ["int", v]], {}, {}]}, {}]
    via_op = ["task", body, {"a": ["op", "add", ["task", ["lit", ["int", v]], {}, {}], ["lit", ["int", 0]]]}, {}]
    kids = [plain] + draw(st.lists(st.sampled_from([via_task, via_op, plain]), min_size=1, max_size=3))
    other = ["task", ["lit", ["int", 50 + v]], {}, {}]
    inner = ["list", kids + ([other] if draw(st.booleans()) else [])]
    shape = draw(st.sampled_from(["root", "in-task", "seq"]))
    if shape == "in-task":
        return ["list", [["task", inner, {}, {}], other]]
    if shape == "seq":
        return ["seq", kids]
    return inner


@st.composite
def cases(draw):
    fam = draw(st.sampled_from(["generic", "generic", "generic", "tags", "noprov", "twins"]))
    if fam == "twins":
        return {"family": fam, "prog": draw(twin_child_programs()), "d1": draw(st.lists(st.integers(0, 4), max_size=30)),
                "d2": draw(st.lists(st.integers(0, 4), max_size=30)), "fine": draw(st.booleans()), "rerun": draw(st.booleans())}
    if fam == "generic":
        prog = draw(P.programs(max_depth=4, modes=("node", "node", "dnode"), errors=True))
    elif fam == "tags":
        prog = draw(tag_programs())
    else:
        prog = draw(noprov_programs())
    return {"family": fam, "prog": prog, "d1": draw(st.lists(st.integers(0, 4), max_size=30)),
            "d2": draw(st.lists(st.integers(0, 4), max_size=30)), "fine": draw(st.booleans()),
            "rerun": draw(st.booleans())}


def direct_tags(ast):
    """(value_tags, job_tags) applied directly by a task body (not inside nested task bodies)."""
    vts, jts = [], []

    def walk(a):
        if not isinstance(a, list) or not a or not isinstance(a[0], str):
            return
        if a[0] == "tags":
            vts.extend(tuple(t) for t in a[2])
            jts.extend(tuple(t) for t in a[3])
        for sub in P.compiled_children(a):
            walk(sub)

    walk(ast)
    return vts, jts


def has_nested_set(obj, top=True) -> bool:
    from redun.utils import iter_nested_value_children

    if isinstance(obj, (set, frozenset)) and not top:
        return True
    kids = list(iter_nested_value_children(obj))
    if len(kids) == 1 and kids[0][0]:
        inner = kids[0][1]
        args = getattr(inner, "__dict__", {}).get("args"), getattr(inner, "__dict__", {}).get("kwargs")
        return any(has_nested_set(a, False) for a in args if a is not None)
    return any(has_nested_set(c, False) for _, c in kids)


def has_equal_subobjects(obj) -> bool:
    """Does the value contain two equal container sub-objects (candidates for having been ONE shared
    object when the value was first hashed)?"""
    seen = set()
    dup = [False]

    def walk(x, depth=0):
        if dup[0] or depth > 8:
            return
        if isinstance(x, (list, tuple, dict, set, frozenset)):
            key = (type(x).__name__, repr(x))
            if key in seen:
                dup[0] = True
                return
            seen.add(key)
            for y in (list(x.values()) if isinstance(x, dict) else list(x)):
                walk(y, depth + 1)
        elif hasattr(x, "__dict__") and not isinstance(x, type):
            for y in vars(x).values():
                walk(y, depth + 1)

    walk(obj)
    return dup[0]


def body_argument(session, call_hash):
    """The Argument row holding the body AST of a harness task call: keyword `ast` for calls made
    through a keyword-bound partial (vf.kelem), positional argument 0 otherwise."""
    from redun.backends.db import Argument

    kw = session.query(Argument).filter(Argument.call_hash == call_hash, Argument.arg_key == "ast").first()
    if kw is not None:
        return kw
    return session.query(Argument).filter(Argument.call_hash == call_hash, Argument.arg_position == 0).first()


def holds_raised_throw_argument(obj, depth=0) -> bool:
    """True if the value contains a redun.throw(error) expression whose error carries the
    redun_traceback attribute the scheduler attaches to errors it has seen raised."""
    from redun.expression import Expression, TaskExpression

    if depth > 12:
        return False
    if isinstance(obj, Expression):
        d = obj.__dict__
        args, kwargs = d.get("args") or (), d.get("kwargs") or {}
        if isinstance(obj, TaskExpression) and d.get("task_name") == "redun.throw" and args \
                and isinstance(args[0], BaseException) and "redun_traceback" in getattr(args[0], "__dict__", {}):
            return True
        return any(holds_raised_throw_argument(a, depth + 1) for a in list(args) + list(kwargs.values()))
    if isinstance(obj, dict):
        return any(holds_raised_throw_argument(a, depth + 1) for a in obj.values())
    if isinstance(obj, (list, tuple, set, frozenset)):
        return any(holds_raised_throw_argument(a, depth + 1) for a in obj)
    return False


def audit(case, backend, runs) -> dict:
    from redun.backends.db import Argument, CallEdge, CallNode, Execution, Job, Tag, Value
    from redun.hashing import hash_struct
    from redun.value import get_type_registry

    session = backend.session
    session.expire_all()
    reg = get_type_registry()
    stats = {"jobs": 0, "call_nodes": 0, "values": 0, "cached": 0, "failed": 0, "tags": 0, "noprov": 0, "dups": 0}
    job_rows = {j.id: j for j in session.query(Job).all()}
    nodes = {c.call_hash: c for c in session.query(CallNode).all()}
    edges = {}
    for e in session.query(CallEdge).all():
        edges.setdefault(e.parent_id, []).append((e.call_order, e.child_id))
    stats["jobs"], stats["call_nodes"] = len(job_rows), len(nodes)
    # --- job tree mirrors what the harness observed
    for r in runs:
        root_ids = [j.id for j in r.jobs if j.parent_job is None]
        for sj in r.jobs:
            opts_prov = sj.get_options().get("prov", True) if sj.eval_options is not None else True
            anc_noprov = False
            p = sj.parent_job
            while p is not None:
                if p.eval_options is not None and p.eval_options.get("prov", True) is False:
                    anc_noprov = True
                p = p.parent_job
            row = job_rows.get(sj.id)
            if anc_noprov or opts_prov is False:
                stats["noprov"] += 1
                if anc_noprov and row is not None:
                    raise Violation("recorded-under-noprov", f"job {sj.task.fullname} beneath a prov=False job has a Job row", case)
                continue
            if sj._status is None:
                continue        # never settled (workflow aborted first): may or may not have a row
            if row is None:
                raise Violation("job-row-missing", f"finished job {sj.id[:8]} ({sj.task.fullname}, {sj._status}) has no Job row", case)
            want_parent = sj.parent_job.id if sj.parent_job else None
            if row.parent_id != want_parent:
                raise Violation("job-parent-link", f"job {sj.id[:8]} recorded parent {row.parent_id} != actual {want_parent}", case)
            if row.end_time is None:
                raise Violation("job-end-missing", f"finished job {sj.id[:8]} ({sj._status}) has no end_time", case)
            if row.call_hash is None or row.call_hash not in nodes:
                raise Violation("job-without-call-node", f"finished job {sj.id[:8]} ({sj.task.fullname}, {sj._status}) has no CallNode", case)
            if row.call_hash != sj.call_hash:
                raise Violation("job-call-hash", f"job {sj.id[:8]} row call_hash differs from the scheduler's", case)
            if row.task_hash != sj.task.hash:
                raise Violation("job-task-hash", f"job {sj.id[:8]} row task_hash differs", case)
            if row.cached:
                stats["cached"] += 1
            if sj._status == "FAILED":
                stats["failed"] += 1
                if row.status != "FAILED":
                    raise Violation("failed-status", f"failed job displayed as {row.status}", case)
            # edge to the parent's call node
            if sj.parent_job is not None:
                prow = job_rows.get(sj.parent_job.id)
                # (a parent that failed may have been recorded before this child finished)
                if prow is not None and prow.call_hash and not prow.cached and sj.parent_job._status == "DONE":
                    kids = [c for _, c in edges.get(prow.call_hash, [])]
                    if row.call_hash not in kids:
                        raise Violation("call-edge-missing", f"no CallEdge from {sj.parent_job.task.fullname} to child {sj.task.fullname}", case)
        for ex in session.query(Execution).all():
            if ex.job_id is not None and ex.job_id not in job_rows:
                raise Violation("execution-root-missing", f"execution {ex.id[:8]} root job {ex.job_id} has no row", case)
        for rid in root_ids:
            exs = session.query(Execution).filter(Execution.job_id == rid).all()
            if len(exs) != 1:
                raise Violation("execution-root-link", f"root job {rid[:8]} is the root of {len(exs)} executions", case)
    # --- Merkle property of call nodes
    noprov_involved = "prov" in repr(case["prog"])
    for ch, node in nodes.items():
        kids = [c for _, c in sorted(edges.get(ch, []))]
        # the documented formula (docs/source/implementation/hashing.md), built independently
        expect = hash_struct(["CallNode", node.task_hash, node.args_hash, node.value_hash, sorted(kids)])
        if expect != ch and not noprov_involved:
            raise Violation("merkle-mismatch", f"call node {node.task_name} {ch[:8]}: hash_call_node(task, args, value, "
                            f"{len(kids)} children from CallEdge) = {expect[:8]}", case)
        if len(kids) != len(set(kids)):
            stats["dups"] += 1
        # the node's args_hash is the hash of the recorded argument values
        arows = session.query(Argument).filter(Argument.call_hash == ch).all()
        pos = sorted((a.arg_position, a.value_hash) for a in arows if a.arg_position is not None)
        kw = {a.arg_key: a.value_hash for a in arows if a.arg_position is None}
        if node.task_name in ("vf.node", "vf.elem", "vf.kelem", "vf.dnode", "vf.ident") and not noprov_involved:
            want = hash_struct(["TaskArguments", [h for _, h in pos], kw])
            if want != node.args_hash:
                held = [backend.get_value(a.value_hash)[0] for a in arows]
                if any(has_equal_subobjects(x) for x in held):
                    # redun's value hash is a pickle hash and pickle memoises by identity: a value in
                    # which one list is referenced twice hashes differently from an equal value with
                    # two separate lists, and argument preprocessing rebuilds containers between the
                    # two hashings. Not part of the statement (the Merkle check above uses the
                    # recorded args_hash); skipped, and counted.
                    stats["skipped_shared_subobject"] = stats.get("skipped_shared_subobject", 0) + 1
                    continue
                if any(has_nested_set(x) for x in held):
                    # a container holding a set hashes by set iteration order, which changes when
                    # the set is rebuilt between the two hashings: C16's (known) finding
                    stats["skipped_nested_set"] = stats.get("skipped_nested_set", 0) + 1
                    continue
                raise Violation("args-hash-mismatch", f"call node {node.task_name} {ch[:8]}: args_hash is not the hash of its "
                                f"{len(arows)} recorded arguments", case)
        # args hash equals the hash of the recorded arguments
    # --- values deserialize to something that hashes to their key
    for v in session.query(Value).all():
        stats["values"] += 1
        try:
            obj, ok_ = backend.get_value(v.value_hash)
        except Exception as e:  # noqa: BLE001
            raise Violation("value-unreadable", f"value {v.value_hash[:8]} ({v.type}) cannot be read: {type(e).__name__}: {e}", case)
        if not ok_:
            raise Violation("value-unreadable", f"value {v.value_hash[:8]} ({v.type}) reads as absent", case)
        h = reg.get_hash(obj)
        if h != v.value_hash and has_nested_set(obj):
            # the pickle-based hash of a container holding a set depends on set iteration order:
            # that is C16's (known) finding, not a property of the recording
            stats["skipped_nested_set"] = stats.get("skipped_nested_set", 0) + 1
            continue
        if h != v.value_hash and holds_raised_throw_argument(obj):
            raise Violation("value-hash-mismatch:throw-argument-mutated",
                            f"value row {v.value_hash[:8]} ({v.type}) deserialises to {obj!r:.80} with hash {h[:8]}: it holds a "
                            f"redun.throw(error) expression whose error object was raised in-process and then given a "
                            f"redun_traceback attribute by the scheduler, after the expression's hash had been taken", case)
        if h != v.value_hash:
            raise Violation("value-hash-mismatch", f"value row {v.value_hash[:8]} ({v.type}) deserialises to {obj!r:.80} with hash {h[:8]}", case)
    # --- tags from apply_tags
    for t in session.query(Tag).filter(Tag.key.in_(["jk", "tk"])).all():
        stats["tags"] += 1
        if t.key == "jk":
            if t.entity_type.name != "Job" or t.entity_id not in job_rows:
                raise Violation("job-tag-entity", f"job tag jk={t.value} attached to {t.entity_type} {t.entity_id[:8]}", case)
            row = job_rows[t.entity_id]
            arg0 = body_argument(session, row.call_hash)
            ast, _ = backend.get_value(arg0.value_hash) if arg0 else (None, False)
            _, jts = direct_tags(ast) if ast else ([], [])
            if ("jk", t.value) not in jts:
                raise Violation("job-tag-wrong-job", f"job tag jk={t.value} sits on a job whose body does not apply it (body {ast!r:.100})", case)
        else:
            if t.entity_type.name != "Value":
                raise Violation("value-tag-entity", f"value tag tk={t.value} attached to a {t.entity_type}", case)
            if session.get(Value, t.entity_id) is None:
                raise Violation("value-tag-dangling", f"value tag tk={t.value} points to no Value row", case)
    # job tags from the `tags` task option: on every finished job that had the option
    for r in runs:
        for sj in r.jobs:
            row = job_rows.get(sj.id)
            if row is None or sj._status not in ("DONE", "CACHED") or sj.eval_options is None:
                continue
            want = [tuple(t) for t in (sj.eval_options.get("tags") or [])]
            if not want:
                continue
            have = {(t.key, t.value) for t in session.query(Tag).filter(Tag.entity_id == sj.id).all()}
            for jt in want:
                if jt not in have:
                    raise Violation(f"option-job-tag-missing:{'cached' if row.cached else 'executed'}",
                                    f"job {sj.task.fullname} ({sj._status}) was given the job tag {jt} as a task option but does "
                                    f"not carry it (has {sorted(have)})", case)
            stats["tags"] += 1
    # converse for the tag family: every non-cached job whose body applies a job tag carries it
    if case["family"] == "tags":
        for r in runs:
            for sj in r.jobs:
                row = job_rows.get(sj.id)
                if row is None or row.cached or sj._status != "DONE":
                    continue
                arg0 = body_argument(session, row.call_hash)
                if not arg0:
                    continue
                ast, _ = backend.get_value(arg0.value_hash)
                vts, jts = direct_tags(ast) if isinstance(ast, list) else ([], [])
                have = {(t.key, t.value) for t in session.query(Tag).filter(Tag.entity_id == sj.id).all()}
                for jt in jts:
                    if jt not in have:
                        raise Violation("job-tag-missing", f"job applying job tag {jt} does not carry it", case)
                if vts and isinstance(ast, list) and ast[0] == "tags":
                    exp = P.reference(ast[1])
                    if len(exp.oks) == 1 and not exp.errs:
                        vh = reg.get_hash(exp.oks[0])
                        vhave = {(t.key, t.value) for t in session.query(Tag).filter(Tag.entity_id == vh).all()}
                        for vt in vts:
                            if vt not in vhave:
                                raise Violation("value-tag-missing", f"value tag {vt} is not on the hash of the tagged value {exp.oks[0]!r}", case)
    return stats


def oracle(ctx: Ctx, case):
    backend = dbx.fresh_backend()
    runs = []
    try:
        r1 = schedrun.run_program(case["prog"], decisions=case["d1"], fine=case["fine"], backend=backend)
        runs.append(r1)
        if r1.kind in ("quiescent", "budget"):
            raise Violation("stuck", f"did not terminate: {r1.payload}", case)
        if case["rerun"]:
            r2 = schedrun.run_program(case["prog"], decisions=case["d2"], fine=case["fine"], backend=backend)
            runs.append(r2)
        stats = audit(case, backend, runs)
    finally:
        dbx.discard_backend(backend)
    return stats, r1


def run_case(ctx: Ctx, case) -> None:
    stats, r1 = None, None
    try:
        stats, r1 = oracle(ctx, case)
    finally:
        labels = [f"family:{case['family']}", f"rerun:{case['rerun']}"]
        nt = False
        if stats:
            feats = [k for k in ("failed", "cached", "tags", "noprov", "dups") if stats[k]]
            labels += [f"has:{k}" for k in feats] + [f"end:{r1.kind}"]
            nt = stats["jobs"] >= 3 and bool(feats)
        ctx.case(case, labels=labels, nontrivial=nt)


def check(ctx: Ctx) -> None:
    C.quiet_logs()
    ctx.given(cases(), lambda c: run_case(ctx, c), ctx.n(250, 6400))


def replay(ctx: Ctx, case) -> None:
    C.quiet_logs()
    oracle(ctx, case)
