"""C09 — executions terminate with every job settled (controlled-schedule model)."""
from __future__ import annotations

from vf.core import Ctx, HarnessError, Violation
from vf.lab import ctl as C
from vf.lab import progs as P
from vf.props import _limits as L

ID = "C09"
LEVEL = "exploration"
RULE = (
    "Same program family as C08 (nested jobs sharing limited resources, failures, duplicates, "
    "rejections before the executor, catch/catch_all/seq) but with every job's demand clamped to be "
    "feasible (<= configured limit, 1 if unconfigured), under generated completion schedules of the "
    "harness-owned executor. In this single-threaded model the only ways not to terminate are a "
    "quiescent state (no queued event, no unfinished submitted job) while the workflow promise is "
    "pending — detected by the harness queue — or an unbounded event sequence (step budget 4000, far "
    "above anything observed; exceeding it is reported as inconclusive). Oracle: run returns or "
    "raises; on return no job is left in the scheduler's running set or waiting for limits, every "
    "recorded Job row has an end time, and the outcome agrees with the reference interpreter. "
    "Non-trivial = some job waited for a resource that was released by a failing, rejected or "
    "deduplicated job."
)
ASSUMPTIONS = [
    "task functions terminate (generated bodies do)",
    "liveness is decided only inside the controlled-schedule model: free-running OS-thread timing is not covered",
]
MANIFEST = {"technique": "deadlock search over generated programs x generated schedules (Hypothesis, controlled executor)"}


def oracle(ctx: Ctx, case):
    from sqlalchemy import text

    import vf_tasks
    from vf.lab import dbx, schedrun

    if not L.feasible(case):
        raise HarnessError("generator produced an infeasible demand")
    r = schedrun.run_program(case["prog"], decisions=case["decisions"], limits=case["limits"], fine=case["fine"],
                             keep_backend=True)
    try:
        sched = r.sched
        if r.kind == "quiescent":
            waiting = [(j.task.fullname, dict(j.get_limits())) for j, _ in sched._jobs_pending_limits]
            raise Violation("stuck:" + ("waiting-for-limits" if waiting else "no-pending-work"),
                            f"no queued event and no running job, but the workflow is pending; waiting={waiting[:4]} "
                            f"limits_used={dict(sched.limits_used)} config={case['limits']}", case)
        if r.kind == "budget":
            raise HarnessError("step budget exceeded (inconclusive)")
        if r.kind == "ok":
            if sched._jobs:
                left = sorted((j.task.fullname, j.status) for j in sched._jobs)
                if all(j.eval_args is None and j._status is None for j in sched._jobs):
                    # created, never started: an argument (or option) of the call failed and the failure
                    # was handled further up (catch / catch_all), so the run went on and returned
                    raise Violation("unstarted-job-left-pending:argument-failed",
                                    f"run returned with {len(left)} job(s) that never left PENDING: {left[:4]}; their "
                                    f"arguments failed to evaluate and nothing settles such a job", case)
                raise Violation("jobs-left-running", f"run returned with {len(left)} unsettled jobs: {left[:4]}", case)
            if sched._jobs_pending_limits:
                raise Violation("jobs-left-waiting", f"run returned with {len(sched._jobs_pending_limits)} jobs waiting", case)
            with sched.backend.engine.connect() as conn:
                open_jobs = conn.execute(text("select count(*) from job where end_time is null")).scalar()
            if open_jobs:
                raise Violation("job-rows-without-end", f"{open_jobs} Job rows have no end time after a successful run", case)
        exp = P.reference(case["prog"])
        if not P.outcome_in(r.kind, r.payload, exp):
            raise Violation("wrong-outcome", f"got {r.kind} {r.payload!r}; reference oks={exp.oks[:2]!r} "
                            f"errs={[P.err_key(e) for e in exp.errs[:3]]}", case)
    finally:
        dbx.discard_backend(r.sched.backend)
    return r


def run_case(ctx: Ctx, case) -> None:
    r = None
    try:
        r = oracle(ctx, case)
    finally:
        labels = [f"fine:{case['fine']}"]
        nt = False
        if r is not None:
            labels.append(f"end:{r.kind}")
            failing = any(s.outcome and s.outcome[0] == "error" for s in r.ctl.submissions)
            rejected = "nope" in repr(case["prog"])
            dup = len({s.key() for s in r.ctl.submissions}) < len(r.ctl.submissions) or "duplicate" in labels
            if r.waited:
                labels.append("waited")
            if failing:
                labels.append("failing-job")
            if rejected:
                labels.append("rejected-before-executor")
            nt = bool(r.waited) and (failing or rejected)
        ctx.case(case, labels=labels, nontrivial=nt)


def check(ctx: Ctx) -> None:
    C.quiet_logs()
    ctx.given(L.cases(feasible_only=True), lambda c: run_case(ctx, c), ctx.n(250, 8000))


def replay(ctx: Ctx, case) -> None:
    C.quiet_logs()
    oracle(ctx, case)
