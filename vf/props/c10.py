"""C10 — remote-executor monitor threads never lose a submitted job (controlled interleavings)."""
from __future__ import annotations

import os

import random

from hypothesis import strategies as st

from vf.core import Ctx, HarnessError, Violation, redun_frame, shard_range
from vf.lab import fakes as F
from vf.lab import interleave as IL

ID = "C10"
LEVEL = "exploration"
SHARDS = 16
RULE = (
    "Per executor class (DockerExecutor, AWSBatchExecutor, K8SExecutor, GCPBatchExecutor, "
    "AWSGlueExecutor; real submit/_submit, _start, _monitor, stop, _process_*, for Glue also "
    "_submission_thread/submit_pending_job; the cloud/container API replaced by an in-process job "
    "table) a 'scheduler' thread runs a script of submit / wait-for-report / think-time operations "
    "while the executor's own monitor (and Glue submission) threads poll; the interleaver owns the "
    "schedule at source-line granularity of those functions, and a poller's sleep may end at any "
    "point. 2-job scenarios: chain (submit 1, wait for its report, submit 2), burst (submit 1, submit "
    "2), lag (chain with 3.5 poll intervals of think time before job 2). Thorough = every schedule "
    "with <= 2 preemptions of the three scenarios per executor plus Hypothesis-drawn scripts over 3 "
    "jobs (generated waits, think times, poll counts, FAILED statuses) with 1-4 preemptions; quick = "
    "every <= 1-preemption schedule, every 2-preemption schedule whose second preemption falls while "
    "a poller is in its exit window, a seeded sample of the other 2-preemption schedules, plus "
    "Hypothesis. Oracle at quiescence (or after 60 poll intervals of virtual time): every submitted "
    "job has exactly one done_job/reject_job, no reject_job(None, error), no exception escaping "
    "submit(), no reported job still pending. A lost job is keyed by the history: the submission "
    "tested the running flag / thread liveness in _start while a poller was between its failed loop "
    "test and its end (known class), the Glue monitor left while the submission thread held the job "
    "(second known class), anything else is 'unclassified'. Non-trivial = a step of a submission "
    "executed while a poller thread was between its failed loop test and its end."
)
ASSUMPTIONS = [
    "thread switches happen at source-line boundaries of the watched executor functions; one line is atomic "
    "(holds for the flag / dict operations involved under the GIL)",
    "one scheduler thread submits (as in redun's Scheduler); cloud jobs reach a final status after finitely many polls",
    "a timed sleep may end at any point relative to another thread's progress (virtual clock)",
    "arraying is disabled (min_array_size=0) so the batch executors submit singly; the arrayer itself is C11",
    "an exception that escapes an already exiting monitor thread (RuntimeError from stop() joining a not yet "
    "started replacement thread, seen for Docker/AWS Batch) is recorded as a label, not a violation: no job is lost",
]
MANIFEST = {"technique": "stateless model checking of real threads (preemption-bounded schedule enumeration + "
                         "Hypothesis-drawn schedules) over sys.monitoring park points"}

EXECUTORS = list(F.ADAPTERS)
SUBMIT_FUNCS = {"submit", "_submit", "_start", "add_job", "_submit_jobs", "_submit_single_job",
                "start"}
SCENARIOS = {
    "chain": [["submit", 1], ["wait", 1], ["submit", 2]],
    "burst": [["submit", 1], ["submit", 2]],
    "lag": [["submit", 1], ["wait", 1], ["sleep", 3.5], ["submit", 2]],
}
KNOWN_SUFFIX = "submit-between-loop-exit-and-flag-clear"

_state: dict = {}


# ------------------------------------------------------------------------------------------ running
def get_adapter(name: str) -> F.Adapter:
    a = _state.get(("adapter", name))
    if a is None:
        a = F.ADAPTERS[name]()
        a.setup()
        IL.watch(a.watch_funcs())
        a.loops = a.exit_loops()
        a.check_lines = F.if_lines(a.cls()._start)
        _state[("adapter", name)] = a
    return a


def release_adapters() -> None:
    for k in [k for k in _state if k[0] == "adapter"]:
        _state.pop(k).teardown()


class Outcome:
    pass


def run_case(ctx: Ctx, case: dict) -> Outcome:
    """Execute one (executor, script, plan, schedule) case; returns the observations."""
    a = get_adapter(case["exec"])
    script = case["script"]
    njobs = max(op[1] for op in script if op[0] != "sleep")
    jobs = F.make_jobs(njobs)
    if "scratch" not in _state:
        _state["scratch"] = ctx.fresh_dir("c10")
    run = IL.Run(case.get("schedule", ()), max_steps=6000, max_time=1000.0 + 60 * a.interval,
                 relative=bool(case.get("rel")))
    out = Outcome()
    out.spans = {}
    with IL.install(run, a.modules()) as (tp, _cp):
        a.new_case(case.get("plan") or {}, _state["scratch"])
        events = {k: tp.Event() for k in range(1, njobs + 1)}

        def on_report(kind, key):
            if key in events:
                events[key].set()

        a.sched.on_report = on_report

        def main():
            for op in script:
                if op[0] == "submit":
                    lo = run.step
                    try:
                        a.submit(jobs[op[1] - 1])
                    finally:
                        out.spans[op[1]] = (lo, run.step)
                elif op[0] == "wait":
                    events[op[1]].wait()
                elif op[0] == "sleep":      # think time of the scheduler thread, in poll intervals
                    run.sleep(op[1] * a.interval)
                else:
                    raise HarnessError(f"bad op {op}")

        run.go([main], ["scheduler"])
    out.run = run
    out.adapter = a
    out.reports = list(a.sched.reports)
    out.pending = a.pending_keys()
    out.submitted = [op[1] for op in script if op[0] == "submit" and op[1] in out.spans]
    analyse(out)
    return out


def analyse(out: Outcome) -> None:
    """Poller exit windows and what the scheduler thread executed inside them."""
    run, a = out.run, out.adapter
    target_of: dict[int, str] = {}
    open_at: dict[int, int] = {}     # poller tid -> step from which it is past its loop
    done_at: dict[int, int] = {}
    for step, tid, ev_from, ev_to, state in run.trace:
        if tid not in target_of and ev_from == ("start",) and ev_to[0] == "L" and ev_to[1] in a.loops:
            target_of[tid] = ev_to[1]
        if tid in target_of and tid not in open_at and ev_to[0] == "L" and ev_to[1] == target_of[tid] \
                and ev_to[2] > a.loops[target_of[tid]][1]:
            open_at[tid] = step + 1
        if state == "done":
            done_at[tid] = step
    out.pollers = target_of

    def in_window(step):
        return [t for t, s0 in open_at.items() if s0 <= step <= done_at.get(t, 10 ** 9)]

    out.window_steps = []        # (step, func, job, pollers in window) of scheduler-thread steps
    for step, tid, ev_from, ev_to, state in run.trace:
        if tid != 0 or ev_from[0] != "L" or ev_from[1] not in SUBMIT_FUNCS:
            continue
        w = in_window(step)
        if w:
            job = next((k for k, (lo, hi) in out.spans.items() if lo <= step <= hi), None)
            out.window_steps.append((step, ev_from[1], job, tuple(sorted(target_of[t] for t in w)), ev_from[2]))
    out.in_window = in_window
    # Glue hand-off: where was the submission thread when the monitor failed its loop test?
    out.handoff_exit = False
    if "_submission_thread" in a.loops:
        sub_line = {}
        for e, pos in run.positions():
            step, tid = e[0], e[1]
            if target_of.get(tid) == "_monitor" and open_at.get(tid) == step + 1:
                for t2, tg in target_of.items():
                    p = pos.get(t2)
                    if tg == "_submission_thread" and p is not None and p[0] == "L" and (
                            p[1] == "submit_pending_job" or (p[1] == "_submission_thread" and a.handoff[0] < p[2] <= a.handoff[1])):
                        out.handoff_exit = True
    out.alive = [t.idx for t in run.threads if t.idx in target_of and t.state != "done"]


def classify_loss(out: Outcome, k: int) -> str:
    """Finding-key suffix for a job that was submitted and never reported, from the history."""
    a, run = out.adapter, out.run
    # the submission tested the running flag / thread liveness (an `if` line of _start) while a
    # poller was past its failed loop test and had not ended yet
    starts = [w for w in out.window_steps if w[2] == k and w[1] == "_start" and w[4] in a.check_lines]
    if starts:
        targets = sorted({t for w in starts for t in w[3]})
        if "_monitor" in targets:
            return KNOWN_SUFFIX
        return "submit-between-" + "+".join(t.strip("_") for t in targets) + "-loop-exit-and-thread-exit"
    # a poller that died from an exception
    dead = [t for t in run.threads if t.idx in out.pollers and t.error is not None]
    if dead:
        return "poller-died:" + type(dead[0].error).__name__
    # Glue: the monitor's loop test ran while the submission thread held a job it had taken off the
    # pending queue and not yet put into the running map
    if out.handoff_exit:
        return "monitor-exits-while-submission-in-flight"
    return "unclassified"


def oracle(ctx: Ctx, case: dict, out: Outcome) -> None:
    run, a = out.run, out.adapter
    cls = a.name
    if run.status in ("step-cap", "fatal"):
        raise HarnessError(f"run status {run.status} for {case}")
    # an exception escaping submit() reaches the scheduler thread
    for t in run.threads:
        if t.error is not None:
            where = redun_frame(t.error)
            if where is None:
                raise HarnessError(f"harness exception in thread {t.name}: {t.error!r}") from t.error
            if t.idx == 0:
                raise Violation(f"exc:{cls}:submit:{type(t.error).__name__}@{where}",
                                f"{type(t.error).__name__}: {t.error} escaped submit()", case)
    counts: dict = {}
    for kind, key, detail in out.reports:
        if key is None:
            raise Violation(f"monitor-error:{cls}:{type(detail).__name__}",
                            f"a thread of {cls} reported reject_job(None, {detail!r})", case)
        counts[key] = counts.get(key, 0) + 1
    for k in out.submitted:
        n = counts.get(k, 0)
        if n > 1:
            raise Violation(f"duplicate-report:{cls}", f"job {k} was reported {n} times: {out.reports}", case)
        if n == 0:
            where = "still in the executor's pending map" if k in out.pending else "in no pending map"
            errs = [f"T{t.idx}:{t.error!r}" for t in run.threads if t.error is not None]
            raise Violation(
                f"lost-job:{cls}:{classify_loss(out, k)}",
                f"job {k} was submitted (steps {out.spans[k]}) but never reported; it is {where}; "
                f"run status={run.status}, live pollers={out.alive}, thread errors={errs}, virtual "
                f"time={run.now - run.t0:.1f}s; scheduler steps inside a poller's exit window: "
                f"{out.window_steps[:4]}", case)
    extra = [k for k in out.pending if counts.get(k, 0) >= 1]
    if extra:
        raise Violation(f"reported-but-pending:{cls}", f"jobs {extra} were reported and are still pending", case)


def labels_of(case: dict, out: Outcome) -> list:
    run = out.run
    labs = [case["exec"], f"pre={len(run.effective)}", f"status:{run.status}",
            "scenario:" + next((n for n, s in SCENARIOS.items() if s == case["script"]), "generated")]
    if out.window_steps:
        labs.append("submit-in-exit-window")
    for t in run.threads:
        if t.error is not None and t.idx != 0:
            labs.append(f"thread-exc:{type(t.error).__name__}@{redun_frame(t.error)}")
    return labs


def check_case(ctx: Ctx, case: dict) -> Outcome:
    """Run + oracle + accounting. A violation with an open known key is absorbed."""
    out = run_case(ctx, case)
    try:
        oracle(ctx, case, out)
    except Violation as v:
        if case.get("rel"):     # report the equivalent absolute schedule
            v.case = {k: v_ for k, v_ in case.items() if k != "rel"}
            v.case["schedule"] = [list(p) for p in out.run.effective]
        if not ctx.absorb(v):
            raise
        ctx.label("known:" + v.key)
    finally:
        ctx.case(case, labels=labels_of(case, out), nontrivial=bool(out.window_steps))
    return out


# ------------------------------------------------------------------------------------------ exploration
def base_case(name: str, scen: str, schedule: list) -> dict:
    return {"exec": name, "script": SCENARIOS[scen], "plan": {}, "schedule": schedule}


def window_children(out: Outcome, schedule: list) -> tuple[list, list]:
    """Children of a schedule split into (second preemption while a poller is in its exit window,
    the rest)."""
    inside, rest = [], []
    for ch in IL.children(out.run, schedule):
        (inside if out.in_window(ch[-1][0]) else rest).append(ch)
    return inside, rest


def explore_quick(ctx: Ctx, name: str, scen: str, sample: int) -> None:
    rng = random.Random(f"{ctx.seed}:{name}:{scen}")
    root = check_case(ctx, base_case(name, scen, []))
    IL.assert_deterministic(lambda s: run_case(ctx, base_case(name, scen, s)).run, [], times=2)
    rest_pool = []
    n_inside = 0
    for sch1 in IL.children(root.run, []):
        out1 = check_case(ctx, base_case(name, scen, sch1))
        inside, rest = window_children(out1, sch1)
        n_inside += len(inside)
        for sch2 in inside:
            check_case(ctx, base_case(name, scen, sch2))
        rest_pool.extend(rest)
    picked = rng.sample(rest_pool, min(sample, len(rest_pool)))
    for i, sch2 in enumerate(picked):
        if i % 25 == 0:     # flakiness = harness bug
            IL.assert_deterministic(lambda s: run_case(ctx, base_case(name, scen, s)).run, sch2, times=2)
        check_case(ctx, base_case(name, scen, sch2))
    ctx.coverage_extra["schedules_le1_all"] = ctx.coverage_extra.get("schedules_le1_all", 0) + 1 + len(IL.children(root.run, []))
    ctx.coverage_extra["schedules_2pre_in_exit_window_all"] = ctx.coverage_extra.get("schedules_2pre_in_exit_window_all", 0) + n_inside
    ctx.coverage_extra["schedules_2pre_other_sampled"] = ctx.coverage_extra.get("schedules_2pre_other_sampled", 0) + len(picked)
    ctx.coverage_extra["schedules_2pre_other_total"] = ctx.coverage_extra.get("schedules_2pre_other_total", 0) + len(rest_pool)


def explore_exhaustive(ctx: Ctx, name: str, scen: str, max_pre: int = 2) -> None:
    """Every schedule with <= max_pre preemptions; shards split the first preemption."""
    first = ctx.shard is None or ctx.shard == 0
    root = (check_case if first else run_case)(ctx, base_case(name, scen, []))
    level1 = IL.children(root.run, [])
    mine = shard_range(ctx, level1)
    n = IL.explore(lambda s: check_case(ctx, base_case(name, scen, s)).run, max_pre, roots=mine)
    ctx.coverage_extra["schedules_enumerated"] = ctx.coverage_extra.get("schedules_enumerated", 0) + n + (1 if first else 0)
    if mine:
        IL.assert_deterministic(lambda s: run_case(ctx, base_case(name, scen, s)).run, mine[len(mine) // 2], times=2)


# ------------------------------------------------------------------------------------------ generated part
@st.composite
def gen_cases(draw):
    name = draw(st.sampled_from(EXECUTORS))
    script = []
    for k in (1, 2, 3):
        if k > 1:
            pre = draw(st.sampled_from(["none", "wait", "sleep", "wait+sleep"]))
            if "wait" in pre:
                script.append(["wait", draw(st.integers(1, k - 1))])
            if "sleep" in pre:
                script.append(["sleep", draw(st.sampled_from([0.5, 1.5, 3.5]))])
        script.append(["submit", k])
    plan = {}
    for k in (1, 2, 3):
        polls = draw(st.integers(0, 2))
        status = draw(st.sampled_from(["SUCCEEDED", "SUCCEEDED", "FAILED"]))
        if polls or status != "SUCCEEDED":
            plan[str(k)] = {"polls": polls, "status": status}
    nthreads = 4 if name == "AWSGlueExecutor" else 3
    horizon = {"DockerExecutor": 80, "AWSGlueExecutor": 340}.get(name, 140)   # ~ decision points per run
    schedule = draw(IL.schedules(4, horizon, nthreads, min_pre=1))
    return {"exec": name, "script": script, "plan": plan, "schedule": schedule, "rel": True}


# ------------------------------------------------------------------------------------------ k8s reunite
@st.composite
def reunite_cases(draw):
    """A resumed run re-submits jobs whose eval hashes belong to an array k8s Job that a previous run
    left in flight (its eval-hash file is in scratch): n children, a subset re-submitted in some order."""
    n = draw(st.integers(2, 4))
    k = draw(st.integers(1, n))
    order = draw(st.permutations(list(range(n))))[:k]
    return {"reunite": "k8s", "n": n, "order": list(order)}


def reunite_oracle(ctx: Ctx, case: dict) -> None:
    """Real K8SExecutor threads against an in-process fake cluster holding one indexed Job with n
    children in flight; after the re-submissions the cluster completes the array. Every re-submitted
    job must be reported to the scheduler, exactly once, with its own child's output."""
    import tempfile
    import threading
    import time
    from types import SimpleNamespace
    from unittest.mock import patch

    from kubernetes import client
    from redun import Scheduler, task
    from redun.config import Config
    from redun.executors.k8s import K8SExecutor
    from redun.executors.k8s_utils import DEFAULT_JOB_PREFIX, K8SClient
    from redun.executors.scratch import SCRATCH_HASHES, SCRATCH_OUTPUT, get_array_scratch_file, get_job_scratch_file
    from redun.file import File
    from redun.scheduler import Job
    from redun.utils import pickle_dumps

    import logging

    logging.getLogger("redun").setLevel(logging.CRITICAL)
    n, order = case["n"], case["order"]
    uuid_ = "0123456789abcdef0123456789abcdef"
    name = f"{DEFAULT_JOB_PREFIX}-{uuid_}-array"
    lock = threading.Lock()
    state = {"complete": False}

    class Cluster:
        def _job(self):
            with lock:
                done = state["complete"]
            status = (client.V1JobStatus(succeeded=n, completed_indexes=f"0-{n - 1}",
                                         conditions=[client.V1JobCondition(type="Complete", status="True")])
                      if done else client.V1JobStatus(active=n))
            return client.V1Job(metadata=client.V1ObjectMeta(name=name, uid="array-uid", namespace="default"),
                                spec=client.V1JobSpec(parallelism=n, completions=n, completion_mode="Indexed",
                                                      template=client.V1PodTemplateSpec()), status=status)

        def list_job_for_all_namespaces(self, watch=False, _continue=None):
            return SimpleNamespace(items=[self._job()], metadata=SimpleNamespace(_continue=None))

        def read_namespaced_job(self, name, namespace=None):
            return self._job()

        def delete_namespaced_job(self, name, namespace=None, body=None):
            pass

        def list_pod_for_all_namespaces(self, watch=False, label_selector=None, _continue=None):
            pods = [client.V1Pod(metadata=client.V1ObjectMeta(
                name=f"{name}-{i}-abcde", uid=f"pod-uid-{i}", namespace="default",
                annotations={"batch.kubernetes.io/job-completion-index": str(i)})) for i in range(n)]
            return SimpleNamespace(items=pods, metadata=SimpleNamespace(_continue=None))

        def create_namespace(self, body):
            pass

        def read_namespaced_pod_log(self, *a, **k):
            return ""

    if "add_ten" not in _reunite:
        @task(namespace="vf_c10", name="add_ten")
        def add_ten(x):
            return x + 10

        _reunite["add_ten"] = add_ten
    add_ten = _reunite["add_ten"]
    tmp = tempfile.mkdtemp(prefix="vf-c10-", dir=ctx.fresh_dir("c10k8s"))
    scratch = os.path.join(tmp, "scratch")
    os.makedirs(scratch)
    cluster = Cluster()
    scheduler = Scheduler()
    reports: dict = {}

    def done_job(job, result, job_tags=[]):
        reports.setdefault(job.id if job else None, []).append(("done", result))

    def reject_job(job, error, error_traceback=None, job_tags=[]):
        reports.setdefault(job.id if job else None, []).append(("error", repr(error)[:120]))

    scheduler.done_job = done_job
    scheduler.reject_job = reject_job
    executor = None
    with patch.object(K8SClient, "core", new=cluster), patch.object(K8SClient, "batch", new=cluster), \
            patch.object(K8SClient, "version", return_value=(1, 23)):
        try:
            cfg = Config({"k8s": {"type": "k8s", "image": "img", "scratch": scratch, "job_monitor_interval": "0.02",
                                  "job_stale_time": "0.01", "code_package": "False"}})
            executor = K8SExecutor("k8s", scheduler, cfg["k8s"])
            jobs = []
            for i in range(n):
                job = Job(add_ten, add_ten(i))
                job.eval_hash = f"evalhash{i}"
                job.args = ((i,), {})
                jobs.append(job)
            File(get_array_scratch_file(scratch, uuid_, SCRATCH_HASHES)).write("\n".join(j.eval_hash for j in jobs))
            with ctx.no_raise("K8SExecutor.submit", case):
                for i in order:
                    executor.submit(jobs[i])
            for i, job in enumerate(jobs):
                File(get_job_scratch_file(scratch, job, SCRATCH_OUTPUT)).write(pickle_dumps(i + 10), mode="wb")
            with lock:
                state["complete"] = True
            deadline = time.time() + 30
            while time.time() < deadline:
                if all(jobs[i].id in reports for i in order):
                    break
                if not executor.is_running and executor.arrayer.num_pending == 0:
                    time.sleep(0.3)
                    break
                time.sleep(0.02)
        finally:
            if executor is not None:
                executor.stop()
    lost = [i for i in order if jobs[i].id not in reports]
    if lost:
        raise Violation("lost-job:K8SExecutor:reunited-with-array-child",
                        f"jobs re-submitted in order {order} were reunited with children of one in-flight array job; after the "
                        f"array completed, children {lost} were never reported to the scheduler (reported: "
                        f"{ {i: reports.get(jobs[i].id) for i in order} })", case)
    for i in order:
        got = reports[jobs[i].id]
        if got != [("done", i + 10)]:
            raise Violation("wrong-report:K8SExecutor:reunited-with-array-child",
                            f"child {i} was reported as {got}, expected one done report with {i + 10}", case)


_reunite: dict = {}


def run_reunite_case(ctx: Ctx, case: dict) -> None:
    try:
        reunite_oracle(ctx, case)
    finally:
        ctx.case(case, labels=["reunite:k8s", f"children:{case['n']}", f"resubmitted:{len(case['order'])}"],
                 nontrivial=len(case["order"]) >= 2)


def check(ctx: Ctx) -> None:
    try:
        ctx.given(reunite_cases(), lambda c: run_reunite_case(ctx, c), ctx.n(6, 64), shrink=False)
        if ctx.thorough:
            for name in EXECUTORS:
                for scen in SCENARIOS:
                    explore_exhaustive(ctx, name, scen, 2)
            ctx.coverage_extra["exhaustive"] = True
            ctx.coverage_extra["exhaustive_scope"] = (
                "all schedules with <= 2 preemptions of the 2-job scenarios chain, burst and lag for each of "
                + ", ".join(EXECUTORS))
            ctx.given(gen_cases(), lambda c: check_case(ctx, c), ctx.n(0, 48000))
        else:
            for name in EXECUTORS:
                for scen in SCENARIOS:
                    explore_quick(ctx, name, scen, sample=30 if name != "AWSGlueExecutor" else 20)
            ctx.given(gen_cases(), lambda c: check_case(ctx, c), 200)
        ctx.coverage_extra["executors_covered"] = ", ".join(EXECUTORS)
    finally:
        release_adapters()


def replay(ctx: Ctx, case) -> None:
    if case.get("reunite"):
        reunite_oracle(ctx, case)
        return
    try:
        out = run_case(ctx, case)
        oracle(ctx, case, out)
    finally:
        release_adapters()
