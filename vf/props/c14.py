"""C14 — the canonical structure encoding (bencode) behind every hash is injective."""
from __future__ import annotations

import hashlib

from hypothesis import strategies as st

from vf.core import Ctx, Violation

ID = "C14"
LEVEL = "exploration"
RULE = (
    "Hypothesis-generated recursive structures over ints (incl. big/negative), bytes, text, lists, "
    "tuples and str-keyed dicts; each case is (x, mutate(x)) plus a key permutation and a "
    "non-encodable value planted at a random path. Oracles: bdecode(bencode(x)) == norm(x); "
    "norm(x)!=norm(y) => encodings differ and norm(x)==norm(y) => encodings equal; permuted dicts "
    "encode identically; bool/None/float anywhere => TypeError; hash_struct == sha512(enc)[:40]. "
    "Non-trivial = depth>=2 containing a dict and a str/bytes leaf; distinct by canonical JSON digest."
)
ASSUMPTIONS = [
    "norm() (tuple->list, utf-8-decodable bytes->str) is exactly the two identifications the property allows",
    "dict keys are str (the property's domain: string-keyed mappings)",
]

text = st.text(st.characters(exclude_categories=["Cs"]), max_size=6)
ints = st.one_of(st.integers(-5, 5), st.integers(), st.integers(-(10**30), 10**30))
byt = st.one_of(st.binary(max_size=5), text.map(lambda s: s.encode()))
leaf = st.one_of(ints, text, byt, st.sampled_from(["", "0", "i1e", "le", "de", "1:a", b"\xff", b""]))


def _ext(children):
    return st.one_of(
        st.lists(children, max_size=4),
        st.lists(children, max_size=3).map(tuple),
        st.dictionaries(text, children, max_size=4),
    )


struct = st.recursive(leaf, _ext, max_leaves=14)


def norm(x):
    if isinstance(x, bytes):
        try:
            return x.decode()
        except UnicodeDecodeError:
            return x
    if isinstance(x, (list, tuple)):
        return [norm(i) for i in x]
    if isinstance(x, dict):
        return {k: norm(v) for k, v in x.items()}
    return x


def typed_eq(a, b) -> bool:
    """Equality that distinguishes bool from int and str from bytes at every level."""
    if type(a) is not type(b):
        return False
    if isinstance(a, list):
        return len(a) == len(b) and all(typed_eq(i, j) for i, j in zip(a, b))
    if isinstance(a, dict):
        return a.keys() == b.keys() and all(typed_eq(a[k], b[k]) for k in a)
    return a == b


def depth(x) -> int:
    if isinstance(x, (list, tuple)):
        return 1 + max((depth(i) for i in x), default=0)
    if isinstance(x, dict):
        return 1 + max((depth(i) for i in x.values()), default=0)
    return 0


def has(x, pred) -> bool:
    if pred(x):
        return True
    if isinstance(x, (list, tuple)):
        return any(has(i, pred) for i in x)
    if isinstance(x, dict):
        return any(has(i, pred) for i in x.values())
    return False


def paths(x, prefix=()):
    yield prefix
    if isinstance(x, (list, tuple)):
        for i, v in enumerate(x):
            yield from paths(v, prefix + (i,))
    elif isinstance(x, dict):
        for k, v in x.items():
            yield from paths(v, prefix + (k,))


def replace_at(x, path, new):
    if not path:
        return new
    h, rest = path[0], path[1:]
    if isinstance(x, dict):
        d = dict(x)
        d[h] = replace_at(x[h], rest, new)
        return d
    seq = list(x)
    seq[h] = replace_at(seq[h], rest, new)
    return tuple(seq) if isinstance(x, tuple) else seq


def get_at(x, path):
    for p in path:
        x = x[p]
    return x


@st.composite
def cases(draw):
    x = draw(struct)
    ps = list(paths(x))
    path = ps[draw(st.integers(0, len(ps) - 1))]
    kind = draw(st.sampled_from(["leaf", "wrap", "swap_type", "dict_key", "append", "same"]))
    old = get_at(x, path)
    if kind == "leaf":
        y = replace_at(x, path, draw(struct))
    elif kind == "wrap":
        y = replace_at(x, path, [old])
    elif kind == "swap_type":
        if isinstance(old, (list, tuple)):
            new = tuple(old) if isinstance(old, list) else list(old)
        elif isinstance(old, str):
            new = old.encode()
        elif isinstance(old, bytes):
            new = old + b"\x00"
        elif isinstance(old, int):
            new = str(old)
        else:
            new = list(old.items())
        y = replace_at(x, path, new)
    elif kind == "dict_key":
        if isinstance(old, dict) and old:
            k = sorted(old)[0]
            d = dict(old)
            v = d.pop(k)
            d[k + draw(text)] = v
            y = replace_at(x, path, d)
        else:
            y = replace_at(x, path, {"k": old})
    elif kind == "append":
        if isinstance(old, (list, tuple)):
            y = replace_at(x, path, type(old)(list(old) + [draw(leaf)]))
        else:
            y = replace_at(x, path, [old, old])
    else:
        y = x
    bad = draw(st.sampled_from([True, False, None, 1.5, {1: "intkey"}, object]))
    bad_path = ps[draw(st.integers(0, len(ps) - 1))]
    perm_seed = draw(st.integers(0, 1000))
    return {"x": x, "y": y, "kind": kind, "bad": repr(bad), "bad_path": list(bad_path),
            "perm_seed": perm_seed, "_bad_obj": bad}


def permute_dicts(x, seed: int):
    if isinstance(x, dict):
        items = [(k, permute_dicts(v, seed + 1)) for k, v in x.items()]
        n = len(items)
        if n > 1:
            r = seed % n
            items = items[r:] + items[:r]
            if seed % 2:
                items.reverse()
        return dict(items)
    if isinstance(x, list):
        return [permute_dicts(v, seed + i) for i, v in enumerate(x)]
    if isinstance(x, tuple):
        return tuple(permute_dicts(v, seed + i) for i, v in enumerate(x))
    return x


def oracle(ctx: Ctx, case: dict) -> None:
    from redun.bcoding import bdecode, bencode
    from redun.hashing import hash_struct

    x, y = case["x"], case["y"]
    pub = {k: v for k, v in case.items() if not k.startswith("_")}
    with ctx.no_raise("bencode", pub):
        ex = bencode(x)
        ey = bencode(y)
    ctx.require(isinstance(ex, bytes), "encode-not-bytes", f"bencode returned {type(ex)}", pub)
    # Round trip (injectivity modulo the two allowed identifications).
    with ctx.no_raise("bdecode", pub):
        dx = bdecode(ex)
        dy = bdecode(ey)
    ctx.require(typed_eq(dx, norm(x)), "roundtrip", f"bdecode(bencode(x)) = {dx!r} != norm(x) = {norm(x)!r}", pub)
    ctx.require(typed_eq(dy, norm(y)), "roundtrip", f"bdecode(bencode(y)) = {dy!r} != norm(y) = {norm(y)!r}", pub)
    # Pairwise: different structures <=> different encodings.
    same = typed_eq(norm(x), norm(y))
    if same:
        ctx.require(ex == ey, "equal-structs-differ", f"equal structures encode differently: {ex!r} {ey!r}", pub)
    else:
        ctx.require(ex != ey, "collision", f"distinct structures share encoding {ex!r}", pub)
    # Key order never matters.
    with ctx.no_raise("bencode", pub):
        ep = bencode(permute_dicts(x, case["perm_seed"]))
    ctx.require(ep == ex, "key-order", f"dict insertion order changed the encoding: {ex!r} vs {ep!r}", pub)
    # hash_struct is the 40-hex prefix of sha512 of the encoding.
    with ctx.no_raise("hash_struct", pub):
        h = hash_struct(x)
    ctx.require(h == hashlib.sha512(ex).hexdigest()[:40], "hash-struct", "hash_struct is not sha512(bencode(x))[:40]", pub)
    # Non-encodables are rejected wherever they sit.
    bad = case.get("_bad_obj", None)
    if "_bad_obj" in case:
        z = replace_at(x, tuple(case["bad_path"]), bad)
        try:
            out = bencode(z)
        except TypeError:
            pass
        except Exception as e:  # noqa: BLE001
            raise Violation("nonencodable-wrong-error", f"{type(e).__name__} instead of TypeError for {case['bad']}", pub)
        else:
            raise Violation("nonencodable-accepted", f"bencode accepted {case['bad']} at {case['bad_path']}: {out!r}", pub)


BAD_OBJS = {repr(b): b for b in [True, False, None, 1.5, {1: "intkey"}, object]}


def run_case(ctx: Ctx, case: dict) -> None:
    x = case["x"]
    nt = depth(x) >= 2 and has(x, lambda v: isinstance(v, dict)) and has(x, lambda v: isinstance(v, (str, bytes)))
    pub = {k: v for k, v in case.items() if not k.startswith("_")}
    ctx.case(pub, labels=[f"mut:{case['kind']}", f"depth:{min(depth(x), 4)}", f"bad:{case['bad']}"], nontrivial=nt)
    oracle(ctx, case)


def check(ctx: Ctx) -> None:
    ctx.given(cases(), lambda c: run_case(ctx, c), ctx.n(3000, 320000))
    if ctx.thorough:
        from vf.lab import fuzz

        fuzz.atheris_campaign(ctx, "vf.props.c14", runs=ctx.n(20000, 400000))


def fuzz_entry():
    """Returns a bytes->None function for atheris (Hypothesis fuzz_one_input with the same oracle)."""
    import hypothesis

    ctx = Ctx(ID, "thorough", 0)

    @hypothesis.settings(database=None, deadline=None)
    @hypothesis.given(cases())
    def t(c):
        run_case(ctx, c)

    return t.hypothesis.fuzz_one_input, ctx


def replay(ctx: Ctx, case: dict) -> None:
    case = dict(case)
    if case.get("bad") in BAD_OBJS:
        case["_bad_obj"] = BAD_OBJS[case["bad"]]
    case["bad_path"] = list(case.get("bad_path", []))
    oracle(ctx, case)
