"""C26 — context is inherited and overridden as documented."""
from __future__ import annotations

from hypothesis import strategies as st

from vf.core import Ctx, Violation
from vf.lab import ctl as C
from vf.lab import dbx
from vf.lab import progs as P
from vf.lab import schedrun

ID = "C26"
LEVEL = "exploration"
RULE = (
    "Generated job trees with nested update_context overrides (dict overrides with nested mappings, "
    "non-dict values replacing dicts and vice versa, expression-valued overrides evaluated as task "
    "options, calls through partial tasks with update_context chained before and after the partial "
    "application, several levels deep), a configured root context merged with the context passed to "
    "run(), context read by get_context(path, default) in bodies, in child jobs and in default "
    "arguments, over dotted paths including missing segments and non-mapping intermediates; plus the "
    "generic program grammar with contexts enabled; in a third of the cases 1-3 further run(context=..) "
    "calls follow on the same Scheduler object. Oracle: an independent deep-merge + path lookup "
    "(later keys win, nested mappings merged, default when a segment is missing or not a mapping): "
    "the value returned by Scheduler.run must equal the reference interpreter's. Non-trivial = >=2 "
    "nested overrides with a dict/non-dict clash and a path of >=2 segments."
)
ASSUMPTIONS = ["context values are JSON values; override keys are strings"]
MANIFEST = {"technique": "differential against a reference context model over generated job trees (Hypothesis, controlled executor)"}

leafv = st.one_of(st.integers(0, 3), st.sampled_from(["s", None, True]))
subdict = st.dictionaries(st.sampled_from(["x", "y", "z"]), st.one_of(leafv, st.dictionaries(st.sampled_from(["z", "w"]), leafv, max_size=2)), max_size=3)
ctxdict = st.dictionaries(st.sampled_from(["a", "b", "c"]), st.one_of(leafv, subdict), max_size=3)
PATHS = ["a", "b", "c", "a.x", "a.y", "b.x", "a.x.z", "a.x.w", "b.x.z", "zz", "a.q", "c.x", "a.x.z.k"]


@st.composite
def nested_programs(draw):
    paths = draw(st.lists(st.sampled_from(PATHS), min_size=2, max_size=5))
    dflt = draw(st.sampled_from([None, 0, "dflt"]))
    reads = ["list", [["getctx", p, dflt] for p in paths]]
    kind = draw(st.sampled_from(["body", "child", "default", "default-siblings"]))
    if kind == "default-siblings":
        # several calls of one task from the same parent job, each with its own override; the task
        # reads the context through its default arguments (the same get_context expressions for all)
        body = ["list", [["var", "c"], ["var", "c2"]]]
        sib = [["task", body, {}, {"t": "cnode", "ctx": draw(ctxdict)}] for _ in range(draw(st.integers(1, 3)))]
        sib.insert(draw(st.integers(0, len(sib))), ["task", body, {}, {"t": "cnode"}])
        cur = ["list", sib + [["getctx", "a", dflt]]]
        for _ in range(draw(st.integers(0, 2))):
            cur = ["task", cur, {}, {"ctx": draw(ctxdict)}]
        return cur
    if kind == "child":
        reads = ["list", [reads, ["task", ["getctx", paths[0], dflt], {}, {}]]]
    cur = reads
    levels = draw(st.integers(1, 4))
    for i in range(levels):
        o = {}
        c = draw(st.integers(0, 4))
        if c <= 2:
            o["ctx"] = draw(ctxdict)
        if c >= 3:
            # (for c == 4 chained on top of nothing; for c == 3 also after a dict override: two
            # update_context calls on one task accumulate)
            if c == 3:
                o["ctx"] = draw(ctxdict)
            o["ctxe"] = {draw(st.sampled_from(["a", "b", "c"])): ["task", ["lit", ["int", draw(st.integers(4, 6))]], {}, {}]}
        if kind == "default" and i == 0:
            o["t"] = "cnode"
            cur = ["list", [["var", "c"], ["var", "c2"], cur]]
        if "ctxe" not in o and draw(st.integers(0, 3)) == 0:
            # the call goes through a partial task, with update_context chained before and/or after
            # the partial application (t.update_context(a).partial(..).update_context(b)...)
            o["pctx"] = draw(st.lists(ctxdict, min_size=1, max_size=2))
            cur = ["ptask", cur, {}, o]
            continue
        cur = ["task", cur, {}, o]
    if draw(st.booleans()):
        # a sibling subtree with other overrides: contexts must not leak sideways
        cur = ["list", [cur, ["task", reads, {}, {"ctx": draw(ctxdict)}], reads]]
    return cur


@st.composite
def cases(draw):
    if draw(st.integers(0, 3)) == 0:
        prog = draw(P.programs(max_depth=3, modes=("node", "dnode"), errors=False, ctxs=True))
    else:
        prog = draw(nested_programs())
    case = {"prog": prog, "root": draw(st.one_of(st.just({}), ctxdict)), "runctx": draw(st.one_of(st.just({}), ctxdict)),
            "decisions": draw(st.lists(st.integers(0, 3), max_size=20)), "fine": draw(st.booleans())}
    if draw(st.integers(0, 2)) == 0:
        # further run() calls on the SAME Scheduler object, each with its own context= argument
        case["more_runs"] = draw(st.lists(st.one_of(st.just({}), ctxdict), min_size=1, max_size=3))
    return case


def count_overrides(ast) -> tuple:
    s = repr(ast)
    return s.count("'ctx'") + s.count("'ctxe'"), any(("." in p) for p in PATHS if f"'{p}'" in s)


def oracle(ctx: Ctx, case):
    eff_root = P.merge_ctx(case["root"], case["runctx"])
    exp = P.reference(case["prog"], context=eff_root)
    r = schedrun.run_program(case["prog"], decisions=case["decisions"], fine=case["fine"],
                             context=case["root"] or None, run_kwargs={"context": case["runctx"]})
    if r.kind in ("quiescent", "budget"):
        raise Violation("stuck", f"did not terminate: {r.payload}", case)
    if not P.outcome_in(r.kind, r.payload, exp):
        raise Violation("context-value", f"got {r.kind} {r.payload!r}; the context model gives {exp.oks[:1]!r} "
                        f"{[P.err_key(e) for e in exp.errs[:2]]} (root {case['root']} + run {case['runctx']})", case)
    if case.get("more_runs"):
        import vf_tasks

        # one Scheduler, several run(context=...) calls: the root context of each run is the
        # configured context merged with THAT run's context only
        sched = C.new_scheduler(context=case["root"] or None)
        try:
            for i, rc in enumerate([case["runctx"]] + list(case["more_runs"])):
                exp_i = P.reference(case["prog"], context=P.merge_ctx(case["root"], rc))
                ctl = C.Ctl(case["decisions"], fine=case["fine"], step_budget=6000)
                ctl.attach(sched)
                try:
                    kind, payload = "ok", sched.run(vf_tasks.node(P.fresh(case["prog"]), {}), context=rc)
                except (C.Quiescent, C.StepBudget) as q:
                    raise Violation("stuck", f"run {i} on a reused scheduler did not terminate: {q}", case)
                except Exception as e:  # noqa: BLE001 - the program's own failure
                    kind, payload = "err", e
                if not P.outcome_in(kind, payload, exp_i):
                    raise Violation("context-value:reused-scheduler", f"run {i} on one Scheduler object with context={rc}: got "
                                    f"{kind} {payload!r}; the context model gives {exp_i.oks[:1]!r} "
                                    f"{[P.err_key(e) for e in exp_i.errs[:2]]} (configured {case['root']}; earlier runs used "
                                    f"{([case['runctx']] + list(case['more_runs']))[:i]})", case)
        finally:
            dbx.discard_backend(sched.backend)


def run_case(ctx: Ctx, case) -> None:
    try:
        oracle(ctx, case)
    finally:
        n, deep = count_overrides(case["prog"])
        ctx.case(case, labels=[f"overrides:{min(n, 4)}", "deep-path" if deep else "flat-path",
                               "root" if case["root"] else "no-root", "runctx" if case["runctx"] else "no-runctx",
                               "reused-scheduler" if case.get("more_runs") else "one-run"],
                 nontrivial=n >= 2 and deep)


def check(ctx: Ctx) -> None:
    C.quiet_logs()
    ctx.given(cases(), lambda c: run_case(ctx, c), ctx.n(250, 8000))


def replay(ctx: Ctx, case) -> None:
    C.quiet_logs()
    oracle(ctx, case)
