"""C30 — file value hashes track the filesystem (operation histories per file value class)."""
from __future__ import annotations

import os
import pickle

from hypothesis import strategies as st

from vf.core import Ctx, HarnessError, StopCheck, Violation, redun_frame
from vf.lab import fsx

ID = "C30"
LEVEL = "exploration"
RULE = (
    "For each of File/ContentFile/IFile, Dir/ContentDir/IDir, FileSet/ContentFileSet/IFileSet: "
    "Hypothesis-generated histories (<=12 ops) over two live objects of the class on a scratch tree, "
    "mixing redun-side operations (hash, is_valid, update_hash, pickle reload, File.write in w/a/wb/ab, "
    "open+write+close(x1|x2), copy_to with/without skip_if_exists, StagingFile/StagingDir stage and "
    "unstage, File.stage(dir/).stage(), remove, touch, Dir.mkdir/rmdir, Dir.file(rel).write) with "
    "behind-the-back fsx operations carrying generated (content, mtime): write, append, truncate, "
    "remove, touch, same-size-same-mtime rewrite, add/remove member at depth 0..2, rmtree. Oracles: "
    "(1) right after a redun-side write/copy/stage/mkdir the object's hash equals the hash of a fresh "
    "object of the same class and path; (2) is_valid() == (recorded hash == fresh hash), and with no "
    "recorded hash it is True and records the fresh hash; (3) after every op the fresh hash is "
    "compared with a reference state kept by the harness from its own os.walk/os.stat/read: same "
    "reference state <=> same hash, where the state is (member, size, mtime) for File/Dir/FileSet, "
    "(member, bytes) for the Content* classes and constant for the immutable classes; (4) hashing a "
    "missing path (absent, or below a path component that is a regular file) does not raise and gives "
    "the same hash twice. Non-trivial = a redun-side "
    "write/copy/stage/mkdir applied to an object whose hash had already been computed."
)
ASSUMPTIONS = [
    "local filesystem only; no hidden (dot) names, no symlinks",
    "generated mtimes are whole seconds in 2001 set with os.utime(ns=...), distinct per history step",
    "File.remove/touch and Dir.rmdir are not 'written, copied or staged': only validity (2) is checked after them",
    "a Dir/FileSet is not expected to notice a member written through another File object: only (2),(3) apply",
]
MANIFEST = {"technique": "model-based testing: generated filesystem histories vs. reference state (Hypothesis)"}

FILE_K = ["File", "ContentFile", "IFile"]
DIR_K = ["Dir", "ContentDir", "IDir"]
SET_K = ["FileSet", "ContentFileSet", "IFileSet"]
CLASSES = FILE_K + DIR_K + SET_K
FAM = {**{k: "file" for k in FILE_K}, **{k: "dir" for k in DIR_K}, **{k: "set" for k in SET_K}}
BASE = {"file": "File", "dir": "Dir", "set": "FileSet"}
KIND = {"File": "stat", "Dir": "stat", "FileSet": "stat",
        "ContentFile": "bytes", "ContentDir": "bytes", "ContentFileSet": "bytes",
        "IFile": "const", "IDir": "const", "IFileSet": "const"}

FILE_PATHS = ["a/f0.txt", "b/f1.txt"]
DIR_PATHS = ["d0", "d1"]
SET_PATTERNS = ["d0/*.txt", "d0/**/*.txt"]
DIR_RELS = ["a.txt", "b.dat", "sub/c.txt", "sub/deep/d.txt"]
SET_RELS = ["a.txt", "b.txt", "c.dat", "sub/d.txt", "sub/deep/e.txt"]

# ---------------------------------------------------------------- generators
idx = st.integers(0, 1)
C = fsx.contents
M = fsx.mslots


def T(name, *parts):
    return st.tuples(st.just(name), *parts).map(list)


common_ops = [T("hash", idx), T("valid", idx), T("valid", idx), T("update", idx), T("reload", idx)]

file_ops = st.one_of(common_ops + [
    T("rwrite", idx, C, st.sampled_from(["w", "a", "wb", "ab"])),
    T("ropen", idx, C, st.sampled_from([1, 2])),
    T("rupdate", idx, C, st.sampled_from(["r+", "rb+", "r+b", "w+", "a+", "wb+", "ab+"])),
    T("rupdate", idx, C, st.sampled_from(["r+", "rb+", "r+b"])),
    T("rcopy", idx, st.booleans()),
    T("stage", idx), T("unstage", idx), T("stagenew", idx),
    T("rremove", idx), T("rtouch", idx),
    T("fwrite", idx, C, M), T("fwrite", idx, C, M), T("fappend", idx, C, M),
    T("ftrunc", idx, st.integers(0, 3), M), T("fremove", idx), T("ftouch", idx, M), T("fsame", idx),
    T("fblock", idx),
])
drel = st.sampled_from(DIR_RELS)
dir_ops = st.one_of(common_ops + [
    T("rmkdir", idx), T("rrmdir", idx, st.booleans()),
    T("rcopy", idx, st.booleans()), T("stage", idx), T("unstage", idx),
    T("mwrite", idx, drel, C),
    T("fadd", idx, drel, C, M), T("fadd", idx, drel, C, M), T("fdel", idx, drel),
    T("ftouch", idx, drel, M), T("fsame", idx, drel), T("frmtree", idx),
])
srel = st.sampled_from(SET_RELS)
set_ops = st.one_of(common_ops + [
    T("iter", idx),
    T("mwrite", srel, C),
    T("fadd", srel, C, M), T("fadd", srel, C, M), T("fdel", srel),
    T("ftouch", srel, M), T("fsame", srel), T("frmtree"),
])
OPS = {"file": file_ops, "dir": dir_ops, "set": set_ops}


def cases(cls: str):
    op = OPS[FAM[cls]]
    # the first alternative lets failing histories shrink to one op; the second keeps most
    # generated histories long enough for a write to follow an earlier hash computation
    return st.one_of(st.lists(op, min_size=1, max_size=12),
                     st.lists(op, min_size=6, max_size=12),
                     st.lists(op, min_size=6, max_size=12)).map(lambda ops: {"cls": cls, "ops": ops})


# ---------------------------------------------------------------- the world
class World:
    def __init__(self, ctx: Ctx, case: dict, strict: bool):
        import redun.file as RF

        self.ctx = ctx
        self.case = case
        self.strict = strict
        self.RF = RF
        self.K = case["cls"]
        self.cls = getattr(RF, self.K)
        self.fam = FAM[self.K]
        self.kind = KIND[self.K]
        self.tree = fsx.Tree(ctx.fresh_dir("c30"))
        self.objs = [self.make(0), self.make(1)]
        self.seen = [{}, {}]     # reference state -> fresh hash
        self.rev = [{}, {}]      # fresh hash -> reference state
        self.nontrivial = False
        self.labels = {f"cls:{self.K}"}
        self.step_no = 0

    # ------------------------------------------------------------ helpers
    def arg(self, i: int) -> str:
        rel = {"file": FILE_PATHS, "dir": DIR_PATHS, "set": SET_PATTERNS}[self.fam][i]
        return self.tree.p(rel)

    def make(self, i: int):
        return self.cls(self.arg(i))

    def destroy(self) -> None:
        self.tree.destroy()

    def defect(self, key: str, msg: str) -> None:
        """Report a violation; when its key is an open known finding (and we are exploring, not
        replaying) it is counted and the history continues."""
        v = Violation(key, msg, self.case)
        if not self.strict and self.ctx.absorb(v):
            return
        raise v

    def guard(self, what: str, i, fn):
        """Run code under test that must not raise. Returns (ok, result)."""
        try:
            return True, fn()
        except (Violation, StopCheck, HarnessError):
            raise
        except Exception as e:  # noqa: BLE001
            where = redun_frame(e)
            if where is None:
                raise
            if (isinstance(e, FileNotFoundError) and self.fam == "file" and i is not None
                    and not os.path.exists(self.arg(i))):
                self.defect(f"missing-path-raises:{self.K}",
                            f"{what}: hashing {self.K} at a missing path raised {type(e).__name__}: {e} "
                            f"(expected a deterministic hash, like File)")
                return False, None
            raise Violation(f"exc:{what}:{type(e).__name__}@{where}",
                            f"{self.K}: {what} raised {type(e).__name__}: {str(e)[:300]}", self.case) from e

    def recorded(self, x):
        """The hash the object currently holds (None if never computed) without computing it."""
        if hasattr(x, "_hash"):
            return x._hash
        return x.hash

    def fresh(self, i: int, what: str):
        return self.guard(f"{what}/fresh-hash", i, lambda: self.make(i).hash)

    def ref_state(self, i: int):
        """Reference state of slot i, from the harness's own walk of the tree."""
        if self.kind == "const":
            return ()
        if self.fam == "file":
            snap = self.tree.snapshot(FILE_PATHS[i])
        elif self.fam == "dir":
            snap = self.tree.snapshot(DIR_PATHS[i])
        else:
            snap = {rel: v for rel, v in self.tree.snapshot("d0").items() if set_match(i, rel)}
        return fsx.stat_view(snap) if self.kind == "stat" else fsx.bytes_view(snap)

    def expect_fresh(self, i: int, op: str, had_hash: bool) -> None:
        """Oracle (1): after a redun-side write/copy/stage the object's hash is the fresh one."""
        if had_hash:
            self.nontrivial = True
        ok, fh = self.fresh(i, op)
        if not ok:
            return
        ok, h = self.guard(f"{op}/hash", i, lambda: self.objs[i].hash)
        if not ok:
            return
        if h != fh:
            name = "copy_to" if (self.fam == "dir" and op in ("rcopy", "stage", "unstage")) else op
            self.defect(f"stale-hash:{BASE[self.fam]}.{name}",
                        f"{self.K}: after redun-side {op} the object's hash {h[:8]} differs from "
                        f"{self.K}(path).hash {fh[:8]} (hash computed before the operation: {had_hash})")

    def check_valid(self, i: int, what: str) -> None:
        """Oracle (2)."""
        x = self.objs[i]
        rec = self.recorded(x)
        ok, fh = self.fresh(i, what)
        if not ok:
            return
        ok, v = self.guard(f"{what}/is_valid", i, x.is_valid)
        if not ok:
            return
        if rec is None:
            if v is not True:
                self.defect(f"is-valid-mismatch:{self.K}:no-recorded-hash",
                            f"{self.K} without a recorded hash: is_valid() returned {v!r}")
            ok, h = self.guard(f"{what}/hash", i, lambda: x.hash)
            if ok and h != fh:
                self.defect(f"stale-hash:{BASE[self.fam]}.is_valid",
                            f"{self.K}: is_valid() on an object without hash recorded {h[:8]}, fresh is {fh[:8]}")
        elif bool(v) != (rec == fh):
            self.defect(f"is-valid-mismatch:{self.K}:{'says-valid' if v else 'says-invalid'}",
                        f"{self.K}: is_valid() = {v!r} but recorded hash {rec[:8]} "
                        f"{'==' if rec == fh else '!='} fresh hash {fh[:8]}")

    def observe(self) -> None:
        """Oracles (3) and (4): fresh hash vs reference state, for both slots."""
        for i in (0, 1):
            ok, fh = self.fresh(i, "observe")
            if not ok:
                continue
            missing = self.fam == "file" and not os.path.exists(self.arg(i))
            if missing:
                self.labels.add("missing-path-hashed")
                ok, fh2 = self.fresh(i, "observe")
                if ok and fh2 != fh:
                    self.defect(f"nondeterministic-missing:{self.K}",
                                f"{self.K} at a missing path hashed to {fh[:8]} then {fh2[:8]}")
            state = self.ref_state(i)
            if state in self.seen[i] and self.seen[i][state] != fh:
                tag = {"stat": "stat-hash", "bytes": "content-hash", "const": "immutable-hash"}[self.kind]
                why = {"stat": "changed-without-stat-change", "bytes": "changed-without-byte-change",
                       "const": "changed"}[self.kind]
                self.defect(f"{tag}:{self.K}:{why}",
                            f"{self.K} slot {i}: hash changed {self.seen[i][state][:8]} -> {fh[:8]} although the "
                            f"reference state is the same: {brief(state)}")
            elif fh in self.rev[i] and self.rev[i][fh] != state:
                tag = {"stat": "stat-hash", "bytes": "content-hash", "const": "immutable-hash"}[self.kind]
                why = {"stat": "unchanged-despite-stat-change", "bytes": "unchanged-despite-byte-change",
                       "const": "changed"}[self.kind]
                self.defect(f"{tag}:{self.K}:{why}",
                            f"{self.K} slot {i}: hash {fh[:8]} is the same for two reference states: "
                            f"{brief(self.rev[i][fh])} and {brief(state)}")
            else:
                self.seen[i].setdefault(state, fh)
                self.rev[i].setdefault(fh, state)

    # ------------------------------------------------------------ interpreter
    def step(self, k: int, op: list) -> None:
        self.step_no = k
        name = op[0]
        self.labels.add(f"op:{name}")
        getattr(self, f"op_{name}")(*op[1:])
        self.observe()

    def final(self) -> None:
        for i in (0, 1):
            self.check_valid(i, "final")

    def t(self, m: int) -> int:
        return fsx.Tree.stamp(self.step_no, m)

    # ---- common
    def op_hash(self, i):
        x = self.objs[i]
        had = self.recorded(x) is not None
        ok, h = self.guard("hash", i, lambda: x.hash)
        if ok and not had:
            ok, fh = self.fresh(i, "hash")
            if ok and h != fh:
                self.defect(f"stale-hash:{BASE[self.fam]}.first-hash",
                            f"{self.K}: first hash {h[:8]} differs from a fresh object's {fh[:8]}")
        if ok:
            ok, h2 = self.guard("hash", i, lambda: x.hash)
            if ok and h2 != h:
                self.defect(f"hash-not-cached:{self.K}", f"{self.K}.hash read twice gave {h[:8]} then {h2[:8]}")

    def op_valid(self, i):
        self.check_valid(i, "valid")

    def op_update(self, i):
        ok, _ = self.guard("update_hash", i, self.objs[i].update_hash)
        if ok:
            self.expect_fresh(i, "update_hash", False)

    def op_reload(self, i):
        x = self.objs[i]
        ok, data = self.guard("pickle", i, lambda: pickle.dumps(x))
        if not ok:
            return
        rec = self.recorded(x)
        y = pickle.loads(data)
        if type(y) is not type(x) or self.recorded(y) != rec:
            self.defect(f"reload:{self.K}", f"{self.K}: pickle round trip changed type or recorded hash "
                        f"({type(y).__name__}, {self.recorded(y)} vs {rec})")
        self.objs[i] = y

    # ---- file family: redun side
    def op_rwrite(self, i, content, mode):
        x = self.objs[i]
        had = self.recorded(x) is not None
        data = fsx.enc(content) if "b" in mode else content
        ok, _ = self.guard("File.write", None, lambda: x.write(data, mode=mode))
        if ok:
            self.expect_fresh(i, "rwrite", had)

    def op_rupdate(self, i, content, mode):
        """Write through a read/update (or write/update) stream obtained from File.open."""
        x = self.objs[i]
        if mode.startswith("r") and not os.path.exists(self.arg(i)):
            return          # 'r+' needs an existing file
        had = self.recorded(x) is not None

        def go():
            f = x.open(mode)
            f.seek(0, 2)
            f.write(fsx.enc(content + "u") if "b" in mode else content + "u")
            f.close()

        ok, _ = self.guard("File.open(update)/close", None, go)
        if ok:
            self.expect_fresh(i, "rwrite", had)

    def op_ropen(self, i, content, nclose):
        x = self.objs[i]
        had = self.recorded(x) is not None

        def go():
            f = x.open("w")
            f.write(content)
            for _ in range(nclose):
                f.close()

        ok, _ = self.guard("File.open/close", None, go)
        if ok:
            self.expect_fresh(i, "ropen", had)

    def op_rcopy(self, i, skip):
        j = 1 - i
        src, dst = self.objs[i], self.objs[j]
        had = self.recorded(dst) is not None
        if self.fam == "file":
            if not os.path.isfile(self.arg(i)):
                return                      # copying a missing file fails by definition
            existed = os.path.exists(self.arg(j))
            ok, r = self.guard("File.copy_to", None, lambda: src.copy_to(dst, skip_if_exists=skip))
            if not ok:
                return
            if r is not dst:
                self.defect("copy-result:File", f"{self.K}.copy_to did not return the destination object")
            if skip and existed:
                return                      # nothing was written
            if self.tree.read(FILE_PATHS[j]) != self.tree.read(FILE_PATHS[i]):
                self.defect("copy-content:File", f"{self.K}.copy_to: destination bytes differ from source")
            self.expect_fresh(j, "rcopy", had)
        else:
            before = self.tree.snapshot(DIR_PATHS[j])
            ok, r = self.guard("Dir.copy_to", None, lambda: src.copy_to(dst, skip_if_exists=skip))
            if not ok:
                return
            srcsnap = self.tree.snapshot(DIR_PATHS[i])
            if not srcsnap:
                return                      # nothing to copy, nothing written
            if skip and all(os.path.join(DIR_PATHS[j], os.path.relpath(rel, DIR_PATHS[i])) in before
                            for rel in srcsnap):
                return
            self.expect_fresh(j, "rcopy", had)

    def _staging(self, i):
        """Staging object with remote = slot i, local = the other slot."""
        j = 1 - i
        cls = self.cls.classes.StagingFile if self.fam == "file" else self.cls.classes.StagingDir
        return cls(self.objs[j], self.objs[i]), j

    def _src_ok(self, i):
        if self.fam == "file":
            return os.path.isfile(self.arg(i))
        return bool(self.tree.snapshot(DIR_PATHS[i]))

    def op_stage(self, i):
        sf, j = self._staging(i)
        if not self._src_ok(i):
            return
        had = self.recorded(self.objs[j]) is not None
        ok, r = self.guard("Staging.stage", None, sf.stage)
        if ok:
            if r is not self.objs[j]:
                self.defect(f"stage-result:{BASE[self.fam]}", f"{self.K}: stage() did not return the local object")
            self.expect_fresh(j, "stage", had)

    def op_unstage(self, i):
        # unstage copies local (other slot) -> remote (slot i)
        sf, j = self._staging(i)
        if not self._src_ok(j):
            return
        had = self.recorded(self.objs[i]) is not None
        ok, r = self.guard("Staging.unstage", None, sf.unstage)
        if ok:
            if r is not self.objs[i]:
                self.defect(f"stage-result:{BASE[self.fam]}", f"{self.K}: unstage() did not return the remote object")
            self.expect_fresh(i, "unstage", had)

    def op_stagenew(self, i):
        if not os.path.isfile(self.arg(i)):
            return
        local_dir = self.tree.p("stg") + "/"
        ok, loc = self.guard("File.stage().stage()", None, lambda: self.objs[i].stage(local_dir).stage())
        if not ok:
            return
        if type(loc) is not self.cls:
            self.defect(f"stage-type:{self.K}", f"{self.K}.stage(dir).stage() returned a {type(loc).__name__}")
        want = os.path.join(local_dir, os.path.basename(self.arg(i)))
        ok, fh = self.guard("stagenew/fresh-hash", None, lambda: self.cls(loc.path).hash)
        if ok and (loc.path != want or loc.hash != fh):
            self.defect("stale-hash:File.stagenew", f"{self.K}: staged copy {loc.path} has hash {loc.hash[:8]}, "
                        f"fresh {fh[:8]} (expected path {want})")

    def op_fblock(self, i):
        """The path goes missing because its parent directory is replaced by a regular file
        (stat then fails with ENOTDIR, not ENOENT): hashing and validating must not raise, and give
        the hash of a missing path. The blocking file is removed again before the op ends."""
        rel = FILE_PATHS[i]
        parent = os.path.dirname(rel)
        self.tree.rmtree(parent)
        blocker = self.tree.p(parent)
        with open(blocker, "wb") as f:
            f.write(b"x")
        self.labels.add("missing-path-parent-is-a-file")
        got = []
        try:
            for what, fn in (("fresh hash", lambda: self.make(i).hash), ("fresh hash", lambda: self.make(i).hash),
                             ("is_valid", lambda: self.objs[i].is_valid())):
                try:
                    got.append(fn())
                except (Violation, StopCheck, HarnessError):
                    raise
                except Exception as e:  # noqa: BLE001
                    if redun_frame(e) is None:
                        raise
                    self.defect(f"missing-path-raises:{self.K}:parent-is-a-file",
                                f"{what} of {self.K} at a path whose parent is a regular file raised "
                                f"{type(e).__name__}: {str(e)[:200]} (a missing path must hash deterministically)")
                    return
        finally:
            os.remove(blocker)
        ok, plain = self.fresh(i, "fblock")
        if ok and not (got[0] == got[1] == plain):
            self.defect(f"nondeterministic-missing:{self.K}:parent-is-a-file",
                        f"{self.K} at a path below a regular file hashed to {got[0][:8]}, {got[1][:8]}; the plainly "
                        f"missing path hashes to {plain[:8]}")

    def op_rremove(self, i):
        self.guard("File.remove", None, self.objs[i].remove)

    def op_rtouch(self, i):
        x = self.objs[i]
        had = self.recorded(x) is not None
        ok, _ = self.guard("File.touch", None, x.touch)
        if ok:
            self.expect_fresh(i, "rtouch", had)     # touch() creates the file or moves its mtime: a redun-side write

    # ---- file family: behind the back
    def op_fwrite(self, i, content, m):
        self.tree.write(FILE_PATHS[i], content, self.t(m))

    def op_fappend(self, i, content, m):
        self.tree.append(FILE_PATHS[i], content, self.t(m))

    def op_ftrunc(self, i, n, m):
        self.tree.truncate(FILE_PATHS[i], n, self.t(m))

    def op_fremove(self, i):
        self.tree.remove(FILE_PATHS[i])

    def op_ftouch(self, *a):
        if self.fam == "file":
            i, m = a
            self.tree.touch(FILE_PATHS[i], self.t(m))
        elif self.fam == "dir":
            i, rel, m = a
            if self.tree.stat(os.path.join(DIR_PATHS[i], rel)) is not None:
                self.tree.touch(os.path.join(DIR_PATHS[i], rel), self.t(m))
        else:
            rel, m = a
            if self.tree.stat(os.path.join("d0", rel)) is not None:
                self.tree.touch(os.path.join("d0", rel), self.t(m))

    def op_fsame(self, *a):
        if self.fam == "file":
            rel = FILE_PATHS[a[0]]
        elif self.fam == "dir":
            rel = os.path.join(DIR_PATHS[a[0]], a[1])
        else:
            rel = os.path.join("d0", a[0])
        if self.tree.same_stat_rewrite(rel):
            self.labels.add("same-stat-rewrite")

    # ---- dir family
    def op_rmkdir(self, i):
        x = self.objs[i]
        had = self.recorded(x) is not None
        ok, _ = self.guard("Dir.mkdir", None, x.mkdir)
        if ok:
            if not os.path.isdir(self.arg(i)):
                self.defect("mkdir:Dir", f"{self.K}.mkdir() did not create the directory")
            self.expect_fresh(i, "rmkdir", had)

    def op_rrmdir(self, i, recursive):
        path = self.arg(i)
        if os.path.isdir(path) and os.listdir(path) and not recursive:
            return                          # OSError by definition
        self.guard("Dir.rmdir", None, lambda: self.objs[i].rmdir(recursive))

    def op_mwrite(self, *a):
        if self.fam == "dir":
            i, rel, content = a
            f = self.objs[i].file(rel)
            want_path = os.path.join(self.arg(i), rel)
        else:
            rel, content = a
            want_path = self.tree.p(os.path.join("d0", rel))
            f = self.cls.classes.File(want_path)
        fcls = self.cls.classes.File
        if type(f) is not fcls or f.path != want_path:
            self.defect(f"member-type:{self.K}", f"{self.K}: member object is {type(f).__name__}({f.path})")
        ok, _ = self.guard("member write", None, lambda: f.write(content))
        if ok:
            ok, fh = self.guard("member fresh-hash", None, lambda: fcls(want_path).hash)
            if ok and f.hash != fh:
                self.defect("stale-hash:File.rwrite", f"{fcls.__name__} member written through redun has hash "
                            f"{f.hash[:8]}, fresh {fh[:8]}")

    def op_fadd(self, *a):
        if self.fam == "dir":
            i, rel, content, m = a
            self.tree.add_member(os.path.join(DIR_PATHS[i], rel), content, self.t(m))
        else:
            rel, content, m = a
            self.tree.add_member(os.path.join("d0", rel), content, self.t(m))

    def op_fdel(self, *a):
        if self.fam == "dir":
            self.tree.remove_member(os.path.join(DIR_PATHS[a[0]], a[1]))
        else:
            self.tree.remove_member(os.path.join("d0", a[0]))

    def op_frmtree(self, *a):
        self.tree.rmtree(DIR_PATHS[a[0]] if self.fam == "dir" else "d0")

    # ---- set family
    def op_iter(self, i):
        ok, files = self.guard("FileSet.__iter__", None, lambda: list(self.objs[i]))
        if not ok:
            return
        fcls = self.cls.classes.File
        want = sorted(self.tree.p(rel) for rel in self.tree.snapshot("d0") if set_match(i, rel))
        got = sorted(f.path for f in files)
        if got != want or any(type(f) is not fcls for f in files):
            self.defect(f"members:{self.K}", f"{self.K}({SET_PATTERNS[i]}) iterates {got} "
                        f"({sorted({type(f).__name__ for f in files})}), tree has {want}")


def set_match(i: int, rel: str) -> bool:
    """The harness's own reading of SET_PATTERNS[i] (rel is relative to the tree root)."""
    parts = rel.split(os.sep)
    if parts[0] != "d0" or not rel.endswith(".txt") or fsx.hidden(rel):
        return False
    return len(parts) == 2 if i == 0 else len(parts) >= 2


def brief(state) -> str:
    return repr([tuple(x if not isinstance(x, str) else os.path.basename(x) for x in e) for e in state])[:200]


def run_history(ctx: Ctx, case: dict, strict: bool, sink: list | None = None) -> World:
    w = World(ctx, case, strict)
    if sink is not None:
        sink.append(w)
    try:
        for k, op in enumerate(case["ops"]):
            w.step(k, list(op))
        w.final()
    finally:
        w.destroy()
    return w


def run_case(ctx: Ctx, case: dict) -> None:
    sink: list = []
    try:
        run_history(ctx, case, strict=False, sink=sink)
    finally:
        w = sink[0] if sink else None
        labels = sorted(w.labels) if w else [f"cls:{case['cls']}"]
        ctx.case(case, labels=labels, nontrivial=bool(w and w.nontrivial))


def check(ctx: Ctx) -> None:
    n = ctx.n(300, 16000)
    for cls in CLASSES:
        ctx.given(cases(cls), lambda c: run_case(ctx, c), n)


def replay(ctx: Ctx, case) -> None:
    run_history(ctx, {"cls": case["cls"], "ops": [list(o) for o in case["ops"]]}, strict=True)
