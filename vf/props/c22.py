"""C22 — interrupted or retried recording never corrupts later runs."""
from __future__ import annotations

from hypothesis import strategies as st

from vf.core import Ctx, Violation, shard_range
from vf.lab import codefam
from vf.lab import ctl as C
from vf.lab import dbx
from vf.lab import schedrun

ID = "C22"
LEVEL = "fault_enumeration"
RULE = (
    "Workloads = small generated program families (2-4 tasks: lazy call chains, two callees, catch "
    "of a raising child, arithmetic leaves, some tasks with prov=False or check_valid='shallow'; run with execution tags) executed by the real Scheduler "
    "on a file-backed SQLite backend under the harness executor. For each workload the backend's "
    "session.commit is wrapped, the N commit points of the fault-free run are counted, and the run "
    "is repeated once per (commit point k, fault kind) for ALL k in 1..N and kinds {die before the "
    "commit, die right after it, one transient OperationalError}, and once per SQL statement s in 1..S "
    "that the backend executes inside a db_retry-wrapped method (the statement fails once with an "
    "OperationalError before reaching the database): exhaustive per workload. After a "
    "simulated death the session is dropped, the engine disposed and the file reopened (what process "
    "exit does); then PRAGMA foreign_key_check must be empty and two recovery executions — the same "
    "program, then the program with one task edited — must return what a fresh backend returns. For "
    "a transient error the run itself must complete with the right value and the final normalised "
    "database dump must equal the fault-free dump (no lost, no duplicated records). Non-trivial = the "
    "fault lands inside record_call_node / record_value / record_job_* / record_tags / set_eval_cache "
    "(site label). Distinct = (workload, k, kind)."
)
ASSUMPTIONS = [
    "SQLite atomic commit: after death the file holds exactly what was last committed",
    "one fault per run; the harness executor completes jobs in FIFO order",
]
MANIFEST = {
    "technique": "exhaustive fault enumeration over the commit points of generated workloads, recovery differential vs fresh backend",
    "text": "fault_enumeration: every commit point x {die before, die after, one OperationalError} and every SQL statement of the retried operations x {one OperationalError} of each workload is injected and recovery is compared with a fresh backend; exhaustive per workload, workloads themselves are sampled",
}
SHARDS = 16

FIXED = [
    {"name": "chain", "init": [{"k": "call", "callee": 1, "shift": 0, "add": 1}, {"k": "call", "callee": 2, "shift": 1, "add": 0},
                               {"k": "arith", "mul": 2, "add": 1}, {"k": "parse", "add": 0}],
     "arg": 1, "edit": [2, {"k": "arith", "mul": 3, "add": 1}]},
    {"name": "catch", "init": [{"k": "call2", "callees": [1, 2]}, {"k": "catch", "callee": 2, "add": 1},
                               {"k": "raise_if", "mod": 2, "add": 5}, {"k": "parse", "add": 0}],
     "arg": 1, "edit": [2, {"k": "raise_if", "mod": 3, "add": 5}]},
    # a shallow-validity call over children that record no provenance: their Task values are written
    # by the parent's record_call_node, which therefore commits several times
    {"name": "noprov", "init": [{"k": "call", "callee": 1, "shift": 0, "add": 1},
                                {"k": "call2", "callees": [2, 3], "opts": {"check_valid": "shallow"}},
                                {"k": "arith", "mul": 2, "add": 1, "opts": {"prov": False}},
                                {"k": "arith", "mul": 3, "add": 0, "opts": {"prov": False}}, {"k": "parse", "add": 0}],
     "arg": 1, "edit": [3, {"k": "arith", "mul": 5, "add": 0, "opts": {"prov": False}}]},
]


@st.composite
def workloads(draw):
    from vf.props import c02

    n = draw(st.integers(3, 4))
    init = []
    for i in range(n):
        if i == n - 1:
            init.append({"k": "parse", "add": 0})
        else:
            v = dict(draw(c02.variant_strategy(i, n, False)))
            if v["k"] == "readfile":
                v = {"k": "arith", "mul": 1, "add": draw(st.integers(0, 3))}
            init.append(v)
    if init[0]["k"] in ("arith", "raise_if") and n > 3:
        init[0] = {"k": "call", "callee": 1, "shift": 0, "add": 1}
    for i in range(1, n - 1):
        o = draw(st.sampled_from([None, None, None, None, {"prov": False}, {"check_valid": "shallow"}]))
        if o:
            init[i]["opts"] = dict(o)
    # the edited task is never beneath a catch(): a recovered catch is replayed after such an edit
    # whatever happened to the recording (C02's open finding catch-recovery-replayed:subtree-edit)
    fam = codefam.Family(n)
    fam.variants = list(init)
    under = set()
    for v in init:
        if v["k"] == "catch":
            under |= fam.uses(v["callee"])
    ei = draw(st.sampled_from([i for i in range(n - 1) if i not in under] or [0]))
    ev = dict(draw(c02.variant_strategy(ei, n, False)))
    if ev["k"] == "readfile":
        ev = {"k": "arith", "mul": 2, "add": 7}
    if init[ei].get("opts"):
        ev["opts"] = dict(init[ei]["opts"])
    return {"name": "gen", "init": init, "arg": draw(st.integers(0, 3)), "edit": [ei, ev]}


def outcome(r):
    if r.kind == "ok":
        return ("ok", r.payload)
    if r.kind == "err":
        return ("err", type(r.payload).__name__)
    return (r.kind, str(r.payload)[:80])


def run_on(fam, arg, backend, faulty=None):
    return schedrun.run_program(None, decisions=[], expr=fam.root_expr(arg), backend=backend,
                                run_kwargs={"tags": [("project", "vf"), ("n", 1)]})


def prepare(w):
    """Fault-free reference: results on fresh backends (original and edited code), commit count,
    site labels and the final dump."""
    fam = codefam.Family(len(w["init"]))
    fam.install_all(w["init"])
    b = dbx.fresh_backend()
    try:
        fs = dbx.FaultySession(b)
        r0 = run_on(fam, w["arg"], b)
        fs.remove()
        ref = {"R0": outcome(r0), "N": fs.count, "sites": list(fs.sites), "D0": dbx.dump(b)}
    finally:
        dbx.discard_backend(b)
    b = dbx.fresh_backend()
    try:
        st_ = dbx.FaultyStatements(b)
        run_on(fam, w["arg"], b)
        st_.remove()
        ref["NS"] = st_.count
    finally:
        dbx.discard_backend(b)
    fam.install(w["edit"][0], w["edit"][1])
    b = dbx.fresh_backend()
    try:
        ref["R1"] = outcome(run_on(fam, w["arg"], b))
    finally:
        dbx.discard_backend(b)
    return ref


def inject(ctx: Ctx, w, ref, k: int, kind: str):
    """One fault at commit k. Raises Violation(key=kind:site:consequence)."""
    case = {"workload": w, "k": k, "kind": kind}
    fam = codefam.Family(len(w["init"]))
    fam.install_all(w["init"])
    b = dbx.fresh_backend()
    fs = dbx.FaultyStatements(b, at=k) if kind == "stmt" else dbx.FaultySession(b, at=k, kind=kind)
    site = "?"
    try:
        died = False
        try:
            r = run_on(fam, w["arg"], b)
        except dbx.Crash:
            died = True
            r = None
        site = fs.fired or "not-reached"
        fs.remove()
        if kind in ("operr", "stmt"):
            if died or fs.fired is None:
                return site
            where = f"commit {k}" if kind == "operr" else f"statement {k} of the retried operations"
            got = outcome(r)
            if got != ref["R0"]:
                cons = f"run-raises-{got[1]}" if got[0] == "err" and ref["R0"][0] != "err" else "run-wrong-result"
                raise Violation(f"{kind}:{site}:{cons}", f"one transient OperationalError at {where} ({site}): the run gave {got}, "
                                f"fault-free {ref['R0']}: {r.payload!r:.300}", case)
            diffs = dbx.dump_diff(ref["D0"], dbx.dump(b))
            if diffs:
                tables = "+".join(d.split(":")[0] for d in diffs)
                raise Violation(f"{kind}:{site}:records-differ-{tables}", f"after one retried operation ({where}, {site}) the database "
                                f"differs from the fault-free run: {'; '.join(diffs)[:600]}", case)
            fk = dbx.fk_check(b)
            if fk:
                raise Violation(f"{kind}:{site}:fk-violation", f"dangling references after a retried operation: {fk[:3]}", case)
            return site
        if not died:
            return site
        # ---- simulated death: reopen and recover
        b = dbx.reopen(b)
        fk = dbx.fk_check(b)
        if fk:
            raise Violation(f"{kind}:{site}:fk-violation", f"after dying {kind} commit {k} ({site}) the reopened database has dangling "
                            f"references: {fk[:3]}", case)
        r2 = run_on(fam, w["arg"], b)
        got = outcome(r2)
        if got != ref["R0"]:
            cons = f"recovery-raises-{got[1]}" if got[0] == "err" and ref["R0"][0] != "err" else "recovery-wrong-result"
            raise Violation(f"{kind}:{site}:{cons}", f"after dying {kind} commit {k} ({site}) re-running the same program gives {got}, "
                            f"a fresh backend gives {ref['R0']}: {r2.payload!r:.300}", case)
        fam.install(w["edit"][0], w["edit"][1])
        r3 = run_on(fam, w["arg"], b)
        got = outcome(r3)
        if got != ref["R1"]:
            cons = f"edited-recovery-raises-{got[1]}" if got[0] == "err" and ref["R1"][0] != "err" else "edited-recovery-wrong-result"
            raise Violation(f"{kind}:{site}:{cons}", f"after dying {kind} commit {k} ({site}) running the edited program gives {got}, "
                            f"a fresh backend gives {ref['R1']}: {r3.payload!r:.300}", case)
        fk = dbx.fk_check(b)
        if fk:
            raise Violation(f"{kind}:{site}:fk-violation-after-recovery", f"dangling references after recovery: {fk[:3]}", case)
        return site
    finally:
        fs.remove()
        try:
            dbx.discard_backend(b)
        except Exception:  # noqa: BLE001
            pass


RECORDING = ("record_call_node", "record_value", "record_job", "record_tags", "set_eval_cache", "_record_args", "record_execution")


def enumerate_workload(ctx: Ctx, w) -> None:
    ref = prepare(w)
    points = [(k, kind) for k in range(1, ref["N"] + 1) for kind in ("before", "after", "operr")]
    points += [(k, "stmt") for k in range(1, ref["NS"] + 1)]
    for k, kind in points:
        for _ in (0,):
            site = "?"
            try:
                site = inject(ctx, w, ref, k, kind)
            except Violation as v:
                site = v.key.split(":")[1] if v.key.count(":") >= 2 else "?"
                ctx.case({"workload": w["name"], "k": k, "kind": kind, "init": w["init"], "arg": w["arg"]},
                         labels=[f"kind:{kind}", "site:" + site.split("#")[0].split("<")[0], "violating"],
                         nontrivial=any(s in site for s in RECORDING))
                if not ctx.absorb(v):
                    raise
                continue
            ctx.case({"workload": w["name"], "k": k, "kind": kind, "init": w["init"], "arg": w["arg"]},
                     labels=[f"kind:{kind}", "site:" + site.split("#")[0].split("<")[0]],
                     nontrivial=any(s in site for s in RECORDING))
    ctx.coverage_extra["workloads_enumerated"] = ctx.coverage_extra.get("workloads_enumerated", 0) + 1
    ctx.coverage_extra["commit_points"] = ctx.coverage_extra.get("commit_points", 0) + ref["N"]
    ctx.coverage_extra["statement_points"] = ctx.coverage_extra.get("statement_points", 0) + ref["NS"]


def check(ctx: Ctx) -> None:
    C.quiet_logs()
    todo = list(FIXED)
    if ctx.thorough:
        import hypothesis

        extra = []

        @hypothesis.seed(ctx.hseed())
        @ctx.settings(30, shrink=False)
        @hypothesis.given(workloads())
        def collect(w):
            extra.append(w)

        collect()
        todo = shard_range(ctx, todo + extra)
    for w in todo:
        enumerate_workload(ctx, w)
    ctx.coverage_extra["exhaustive"] = True


def replay(ctx: Ctx, case) -> None:
    C.quiet_logs()
    w = case["workload"]
    ref = prepare(w)
    inject(ctx, w, ref, case["k"], case["kind"])
