"""C36 — schema migrations preserve recorded data (every start version, populated, upgraded to latest)."""
from __future__ import annotations

import collections
import datetime as dt
import json
import os
import re
import shutil
import sqlite3
import uuid

from hypothesis import strategies as st

from redun import Handle

from vf.core import Ctx, HarnessError, Violation
from vf.lab import ctl as C
from vf.lab import dbx
from vf.lab import values as V

ID = "C36"
LEVEL = "exploration"
SHARDS = 16
RULE = (
    "For every schema version V in RedunBackendDb.get_all_db_versions() as the start: an empty SQLite file is "
    "migrated to V with the library's migrate(desired_version=V), then populated through plain SQL INSERTs "
    "(only the tables/columns V has, found with PRAGMA table_info; NOT NULL and foreign keys respected and "
    "verified with PRAGMA foreign_key_check) from a Hypothesis-generated logical call graph: 2-3 executions, "
    "job trees (running / cached / failed jobs, microsecond start/end times), call nodes with child edges and "
    "subtree tasks, pickled values hashed with today's type registry (ErrorValue for failed jobs), arguments "
    "with upstream results, evaluations, lonely tasks (no companion Value), files + subvalues, handles + "
    "handle edges, tags + tag edits, execution.updated_time, NULL/filled job.execution_id at 2.3, plus "
    "Job+CallNode+Evaluation+Value records of two registered harness tasks computed with today's "
    "hash_args_eval. The file is upgraded with migrate() or load() (alternating). Oracle: every start row of "
    "every table present before and after (alembic_version excepted) is found by primary key with equal values "
    "in the shared columns (DATETIME columns compared as instants); a NULL or newly added "
    "job.execution_id may only be filled with an execution whose job_id is the job's root (root jobs without "
    "an execution row are generated below 3.0, where the chain creates stub executions); load() accepts the file, version == latest, "
    "is_db_compatible(); every ORM model can be read; running the harness tasks through a Scheduler on the "
    "upgraded backend returns the recorded result without calling the function (Evaluation path, and CallNode "
    "path with check_valid='shallow'), and a fresh call is executed once, recorded, and cached on the second "
    "run. A failing column is attributed to a migration by re-upgrading a copy one version at a time. "
    "Non-trivial = >=2 executions, a failed job and a sub-second job timestamp."
)
ASSUMPTIONS = [
    "SQLite only (the postgres branches of the migrations are not run); the row-by-row comparison runs under TZ=UTC, so SQLite's 'utc' modifier must not move an instant; a second upgrade of the same file under a fixed-offset zone checks that job times move by exactly that offset",
    "alembic_version is the migration pointer, not recorded data: it is excluded from the row comparison",
    "rows are written the way SQLAlchemy's SQLite dialect stores them (DATETIME as 'YYYY-MM-DD HH:MM:SS.ffffff', booleans 0/1, JSON tag values as normalized strings)",
    "task names/namespaces are valid identifiers (the 2.1 backfill instantiates redun.Task from them)",
    "a NULL job.execution_id at 2.3 counts as 'not recorded': backfilling it is allowed, with the owning execution only",
]
MANIFEST = {"technique": "differential table snapshots across the real alembic chain + cache-hit observation "
                         "(Hypothesis-generated call graphs; controlled executor counts function calls)"}

NS = "vf_c36"
SKIP_TABLES = {"alembic_version"}
FILE_ROOT = "/nonexistent-vf-c36/"
EPOCH = dt.datetime(1970, 1, 1)


class H36(Handle):
    """Importable handle class, so handle values pickle like a user's would."""

    def __init__(self, name, n=0):
        self.n = n


# ====================================================================== harness tasks
_CALLS: collections.Counter = collections.Counter()
_tasks: dict = {}


def harness_tasks() -> dict:
    if not _tasks:
        from redun import Task
        from redun.task import get_task_registry

        def h_single(x, y=0):
            _CALLS["h_single"] += 1
            return ["computed-now", x, y]

        def h_shallow(x):
            _CALLS["h_shallow"] += 1
            return ["computed-now", x]

        t1 = Task(h_single, name="h_single", namespace=NS,
                  source="def h_single(x, y=0):\n    return ['computed-now', x, y]\n")
        t2 = Task(h_shallow, name="h_shallow", namespace=NS, task_options_base={"check_valid": "shallow"},
                  source="def h_shallow(x):\n    return ['computed-now', x]\n")
        for t in (t1, t2):
            get_task_registry().add(t)
        _tasks["single"] = t1
        _tasks["shallow"] = t2
    return _tasks


def reg():
    from redun.value import get_type_registry

    return get_type_registry()


# ====================================================================== generators
_us = st.one_of(st.just(0), st.integers(1, 999_999), st.sampled_from([1, 500_000, 999_999, 123_456, 100_000]))
_dt = st.one_of(st.just(0), st.integers(0, 3_000_000), st.sampled_from([1, 999_999, 1_000_000, 250_000]))
_dur = st.one_of(st.integers(0, 5_000_000),
                 st.sampled_from([0, 1, 999_999, 1_000_000, 1_500_000, 60_000_000, None]))   # None = still running
_vi = st.integers(0, 7)
_leaf = V.leaf_specs
_vals = st.recursive(
    _leaf,
    lambda c: st.one_of(
        st.lists(c, max_size=3).map(lambda xs: ["list", xs]),
        st.lists(c, max_size=3).map(lambda xs: ["tuple", xs]),
        st.lists(st.tuples(V.hashable_leaf_specs, c), max_size=2,
                 unique_by=lambda kv: repr(kv[0])).map(lambda kvs: ["dict", [list(kv) for kv in kvs]]),
    ),
    max_leaves=4,
)
_names = st.sampled_from(["t0", "t1", "load", "align", "fit_model", "main"])
_nss = st.sampled_from(["", "wf", "a.b", "lab_x"])
_srcs = st.sampled_from([
    "def f():\n    return 1\n",
    "def f(a, b=2):\n    return a + b\n",
    "def f(x):\n    '''doc \"q\" é'''\n    return [x]\n",
    "",
    "def f(*a, **k):\n\treturn a  # tab\n",
])
_json = st.recursive(
    st.one_of(st.none(), st.booleans(), st.integers(-5, 5), st.sampled_from(["", "a", "prod", "é", "1", "[x"]),
              st.floats(allow_nan=False, allow_infinity=False, width=16)),
    lambda c: st.one_of(st.lists(c, max_size=2), st.dictionaries(st.sampled_from(["k", "a", "b"]), c, max_size=2)),
    max_leaves=3,
)


def _job(depth: int):
    kids = st.lists(_job(depth - 1), max_size=2) if depth > 0 else st.just([])
    return st.fixed_dictionaries({
        "task": st.integers(0, 2), "dt": _dt, "us": _us, "dur": _dur, "cached": st.booleans(),
        "fail": st.sampled_from([False, False, True]), "args": st.lists(_vi, max_size=2),
        "kw": st.lists(st.tuples(st.sampled_from(["a", "b", "k"]), _vi).map(list), max_size=2,
                       unique_by=lambda kv: kv[0]),
        "res": _vi, "up": st.booleans(), "kids": kids,
    })


_exec = st.fixed_dictionaries({
    "args": st.lists(st.sampled_from(["run", "wf.py", "main", "--x", "1", "é", ""]), max_size=4),
    "t0": st.integers(1_546_300_800, 1_750_000_000),
    "upd": st.one_of(st.none(), _dur.filter(lambda d: d is not None)),
    "null_eid": st.booleans(),
    "orphan": st.sampled_from([False, False, False, True]),   # root job without an execution row (< 3.0 only)
    "root": _job(2),
})
_hx = st.one_of(st.integers(0, 3), st.sampled_from(["a", "é"]))


def _probe(kind):
    return st.fixed_dictionaries({"kind": kind, "x": _hx, "y": st.integers(0, 2), "res": _vi,
                                  "exec": st.integers(0, 2), "us": _us, "dur": st.integers(0, 2_000_000)})


_tag = st.fixed_dictionaries({
    "ent": st.tuples(st.sampled_from(["exec", "job", "call", "task", "value"]), st.integers(0, 9)).map(list),
    "key": st.sampled_from(["env", "user", "redun.context", "k", "é"]),
    "val": _json,
    "edit": st.one_of(st.none(), _json.map(lambda j: [j])),
})


def graphs(version: str):
    return st.fixed_dictionaries({
        "v": st.just(version),
        "via": st.sampled_from(["migrate", "load"]),
        "tz": st.sampled_from([None, None, "JST-9", "NPT-5:45", "XST+3"]),
        "tasks": st.lists(st.fixed_dictionaries({"name": _names, "ns": _nss, "src": _srcs, "lonely": st.booleans()}),
                          min_size=1, max_size=3),
        "values": st.lists(_vals, min_size=2, max_size=6),
        "execs": st.lists(_exec, min_size=2, max_size=3),
        "harness": st.tuples(_probe(st.just("single")), _probe(st.just("shallow")),
                             st.one_of(st.none(), _probe(st.sampled_from(["single", "shallow"])))
                             ).map(lambda t: [p for p in t if p is not None]),
        "tags": st.lists(_tag, max_size=4),
        "files": st.lists(st.fixed_dictionaries({"path": st.sampled_from(["a.txt", "d/b.csv", "é.bin"]),
                                                 "parent": st.booleans()}), max_size=2,
                          unique_by=lambda f: f["path"]),
        "handles": st.lists(st.fixed_dictionaries({"name": st.sampled_from(["conn", "db"]), "n": st.integers(0, 2),
                                                   "fork": st.one_of(st.none(), st.sampled_from(["k", "step2"])),
                                                   "valid": st.booleans()}), max_size=2),
    })


# ====================================================================== small helpers
def ts(us: int) -> str:
    """A timestamp the way SQLAlchemy's SQLite DateTime stores it."""
    return (EPOCH + dt.timedelta(microseconds=us)).strftime("%Y-%m-%d %H:%M:%S.%f")


_TS_RE = re.compile(r"^(\d{4})-(\d\d)-(\d\d)[ T](\d\d):(\d\d)(?::(\d\d)(?:\.(\d{1,6}))?)?(Z|[+-]\d\d:?\d\d)?$")


def instant(s):
    """Parse a stored DATETIME as a UTC instant (naive text is UTC under TZ=UTC); None if not parseable."""
    if not isinstance(s, str):
        return None
    m = _TS_RE.match(s.strip())
    if not m:
        return None
    y, mo, d, h, mi, sec, frac, off = m.groups()
    t = dt.datetime(int(y), int(mo), int(d), int(h), int(mi), int(sec or 0), int((frac or "0").ljust(6, "0")))
    if off and off != "Z":
        sign = 1 if off[0] == "+" else -1
        digits = off[1:].replace(":", "")
        t -= sign * dt.timedelta(hours=int(digits[:2]), minutes=int(digits[2:]))
    return t


def jid(ei: int, n: int) -> str:
    return str(uuid.UUID(int=(0xC36 << 96) | (1 << 64) | (ei << 32) | n))


def eid(ei: int) -> str:
    return str(uuid.UUID(int=(0xC36 << 96) | (2 << 64) | ei))


def vstr(v) -> str:
    return f"{v.major}.{v.minor}"


def versions():
    from redun.backends.db import RedunBackendDb

    return list(RedunBackendDb.get_all_db_versions())


def version_of(s: str):
    for v in versions():
        if vstr(v) == s:
            return v
    raise HarnessError(f"unknown start version {s!r}")


# ====================================================================== schema access
class Db:
    """Plain sqlite3 view of a file: schema introspection, inserts into existing columns only, dumps."""

    def __init__(self, path: str):
        self.conn = sqlite3.connect(path, isolation_level=None)
        self.conn.execute("PRAGMA foreign_keys=ON")
        self.schema = self.read_schema()
        self.seen: set = set()

    def read_schema(self) -> dict:
        out = {}
        names = [r[0] for r in self.conn.execute(
            "select name from sqlite_master where type='table' and name not like 'sqlite_%' order by name")]
        for t in names:
            cols = self.conn.execute(f'PRAGMA table_info("{t}")').fetchall()
            out[t] = {
                "cols": [c[1] for c in cols],
                "types": {c[1]: (c[2] or "").upper() for c in cols},
                "required": [c[1] for c in cols if c[3] and c[4] is None],
                "pk": [c[1] for c in sorted((c for c in cols if c[5]), key=lambda c: c[5])],
            }
        return out

    def has(self, table: str, col: str | None = None) -> bool:
        return table in self.schema and (col is None or col in self.schema[table]["cols"])

    def insert(self, table: str, **row) -> bool:
        """Insert the columns this schema version has; duplicates (same primary key) are skipped."""
        if table not in self.schema:
            return False
        info = self.schema[table]
        row = {k: v for k, v in row.items() if k in info["cols"]}
        missing = [c for c in info["required"] if row.get(c) is None]
        if missing:
            raise HarnessError(f"populate: {table} needs NOT NULL column(s) {missing} that the graph does not supply")
        key = (table,) + tuple(row.get(c) for c in info["pk"])
        if key in self.seen:
            return False
        self.seen.add(key)
        cols = list(row)
        self.conn.execute(
            f'insert into "{table}" ({", ".join(chr(34) + c + chr(34) for c in cols)}) values ({", ".join("?" * len(cols))})',
            [row[c] for c in cols])
        return True

    def dump(self) -> dict:
        out = {}
        for t, info in self.schema.items():
            q = ", ".join(f'"{c}"' for c in info["cols"])
            out[t] = [dict(zip(info["cols"], r)) for r in self.conn.execute(f'select {q} from "{t}"')]
        return out

    def close(self) -> None:
        self.conn.close()


# ====================================================================== populate
class Written:
    """What the writer put in, for the oracles that need the logical view."""

    def __init__(self):
        self.job_root: dict = {}       # job id -> id of the root job of its tree
        self.probes: list = []         # (kind, x, y, expected value, has_eval_row)
        self.jobs = 0
        self.failed = 0
        self.subsecond = 0
        self.running = 0
        self.execs = 0
        self.labels: set = set()


def value_row(db: Db, v) -> str:
    r = reg()
    h = r.get_hash(v)
    db.insert("value", value_hash=h, type=r.get_type_name(type(v)), format=r.get_serialization_format(v),
              value=r.serialize(v))
    return h


def populate(db: Db, case: dict) -> Written:
    from redun import File, Task
    from redun.hashing import hash_call_node, hash_eval, hash_struct, hash_tag
    from redun.scheduler import ErrorValue
    from redun.task import hash_args_eval
    from redun.utils import json_dumps

    w = Written()
    r = reg()
    ht = harness_tasks()
    c = db.conn
    c.execute("BEGIN")
    c.execute("PRAGMA defer_foreign_keys=ON")

    # ---- tasks (generated ones are never registered; the harness ones are)
    def task_rows(t, lonely=False):
        db.insert("task", hash=t.hash, name=t.name, namespace=t.namespace, source=t.source)
        if not lonely:
            value_row(db, t)
        else:
            w.labels.add("lonely-task")

    gtasks = []
    for spec in case["tasks"]:
        t = Task(lambda: None, name=spec["name"], namespace=spec["ns"], source=spec["src"])
        gtasks.append(t)
        task_rows(t, spec["lonely"])
    for t in ht.values():
        task_rows(t)

    # ---- values
    vals = [V.build(s) for s in case["values"]]
    vhash = [value_row(db, v) for v in vals]

    def val(i):
        return vals[i % len(vals)], vhash[i % len(vals)]

    # ---- files, handles
    for f in case["files"]:
        fv = File(FILE_ROOT + f["path"])
        fh = value_row(db, fv)
        db.insert("file", value_hash=fh, path=fv.path)
        w.labels.add("file")
        if f["parent"]:
            ph = value_row(db, [fv, 1])
            db.insert("subvalue", value_hash=fh, parent_value_hash=ph)
            w.labels.add("subvalue")
    for hs in case["handles"]:
        h0 = H36(hs["name"], hs["n"])
        chain = [h0] + ([h0.fork(hs["fork"])] if hs["fork"] else [])
        for k, h in enumerate(chain):
            hh = value_row(db, h)
            last = k == len(chain) - 1
            db.insert("handle", hash=h.__handle__.hash, fullname=h.__handle__.fullname, value_hash=hh,
                      key=h.__handle__.key, is_valid=1 if (hs["valid"] or not last) else 0)
        if len(chain) == 2:
            db.insert("handle_edge", parent_id=chain[0].__handle__.hash, child_id=chain[1].__handle__.hash)
            w.labels.add("handle-edge")
        w.labels.add("handle")

    # ---- executions, jobs, call nodes
    entity = {"exec": [], "job": [], "call": [], "task": [t.hash for t in gtasks], "value": list(vhash)}
    seen_probe = set()

    def call_node(task, args, kwargs, res_hash, child_hashes, subtree, end_us, upstream):
        eval_hash, args_hash = hash_args_eval(r, task, tuple(args), dict(kwargs)) if task.namespace == NS else \
            hash_eval(r, task.hash, list(args), dict(kwargs))
        call_hash = hash_call_node(task.hash, args_hash, res_hash, child_hashes)
        if db.insert("call_node", call_hash=call_hash, task_name=task.fullname, task_hash=task.hash,
                     args_hash=args_hash, value_hash=res_hash, timestamp=ts(end_us)):
            for i, ch in enumerate(child_hashes):
                db.insert("call_edge", parent_id=call_hash, child_id=ch, call_order=i)
            allargs = [(i, None, a) for i, a in enumerate(args)] + [(None, k, a) for k, a in sorted(kwargs.items())]
            for n, (i, k, a) in enumerate(allargs):
                ah = value_row(db, a)
                arg_hash = hash_struct(["Argument", call_hash, str(i), str(k), ah])
                db.insert("argument", arg_hash=arg_hash, call_hash=call_hash, value_hash=ah, arg_position=i, arg_key=k)
                if n == 0 and upstream and upstream != call_hash:
                    db.insert("argument_result", arg_hash=arg_hash, result_call_hash=upstream)
                    w.labels.add("upstream")
            for th in sorted(subtree):
                db.insert("call_subtree_task", call_hash=call_hash, task_hash=th)
        return call_hash, eval_hash, args_hash

    def emit(job, ei, counter, parent_id, parent_start, with_eid):
        """Returns (call_hash or None, subtree task hashes, running?)."""
        n = counter[0]
        counter[0] += 1
        job_id = jid(ei, n)
        base = parent_start + (job["dt"] if parent_id else 0)
        start = base - base % 1_000_000 + job["us"]      # whole second from the tree, microseconds from the job
        if "h" in job:
            task = ht[job["h"]]
            args = [job["x"], job["y"]] if job["h"] == "single" else [job["x"]]
            kwargs = {}
        else:
            task = gtasks[job["task"] % len(gtasks)]
            args = [val(i)[0] for i in job["args"]]
            kwargs = {k: val(i)[0] for k, i in job["kw"]}
        kid_hashes, subtree, running = [], {task.hash}, job["dur"] is None
        last_done = None
        for kid in job["kids"]:
            ch, st_, run = emit(kid, ei, counter, job_id, start, with_eid)
            subtree |= st_
            running = running or run
            if ch:
                kid_hashes.append(ch)
                last_done = ch
        end = None if running else start + job["dur"]
        call_hash = None
        if not running:
            if job.get("fail") and "h" not in job:
                res = ErrorValue(ValueError(f"boom {n}"))
                res_hash = value_row(db, res)
                w.failed += 1
            else:
                res, res_hash = val(job["res"])
            call_hash, eval_hash, args_hash = call_node(task, args, kwargs, res_hash, kid_hashes, subtree, end,
                                                        last_done if job.get("up") else None)
            entity["call"].append(call_hash)
            if not (job.get("fail") and "h" not in job):
                had = db.insert("evaluation", eval_hash=eval_hash, task_hash=task.hash, args_hash=args_hash,
                                value_hash=res_hash)
                if "h" in job:
                    w.probes.append((job["h"], job["x"], job["y"], res, db.has("evaluation") and had))
        else:
            w.running += 1
        db.insert("job", id=job_id, start_time=ts(start), end_time=None if end is None else ts(end),
                  task_hash=task.hash, cached=1 if job.get("cached") else 0, call_hash=call_hash,
                  parent_id=parent_id, execution_id=eid(ei) if with_eid else None)
        w.job_root[job_id] = jid(ei, 0)
        w.jobs += 1
        if start % 1_000_000 or (end is not None and end % 1_000_000):
            w.subsecond += 1
        entity["job"].append(job_id)
        return call_hash, subtree, running

    eid_nullable = db.has("job", "execution_id") and "execution_id" not in db.schema["job"]["required"]
    for ei, ex in enumerate(case["execs"]):
        root = dict(ex["root"])
        extra = []
        for p in case["harness"]:
            sig = (p["kind"], json.dumps(p["x"]), p["y"] if p["kind"] == "single" else 0)
            if p["exec"] % len(case["execs"]) == ei and sig not in seen_probe:
                seen_probe.add(sig)
                extra.append({"h": p["kind"], "x": p["x"], "y": p["y"], "res": p["res"], "dt": 1000, "us": p["us"],
                              "dur": p["dur"], "cached": False, "kids": []})
        root["kids"] = list(root["kids"]) + extra
        # a root job with no execution row can only exist where job.execution_id is absent or nullable
        orphan = bool(ex.get("orphan")) and (not db.has("job", "execution_id") or eid_nullable)
        with_eid = not orphan and not (eid_nullable and ex["null_eid"])
        if not with_eid and eid_nullable:
            w.labels.add("null-execution-id")
        counter = [0]
        emit(root, ei, counter, None, ex["t0"] * 1_000_000, with_eid)
        if orphan:
            w.labels.add("root-job-without-execution")
        else:
            db.insert("execution", id=eid(ei), args=json.dumps(ex["args"]), job_id=jid(ei, 0),
                      updated_time=None if ex["upd"] is None else ts(ex["t0"] * 1_000_000 + ex["upd"]))
            entity["exec"].append(eid(ei))
        w.execs += 1

    # ---- tags and tag edits
    etype = {"exec": "Execution", "job": "Job", "call": "CallNode", "task": "Task", "value": "Value"}
    if db.has("tag"):
        for tg in case["tags"]:
            kind, idx = tg["ent"]
            pool = entity[kind] or entity["job"]
            ent_id = pool[idx % len(pool)]
            kind = kind if entity[kind] else "job"
            h0 = hash_tag(ent_id, tg["key"], tg["val"], [])
            edited = tg["edit"] is not None
            if db.insert("tag", tag_hash=h0, entity_type=etype[kind], entity_id=ent_id, key=tg["key"],
                         value=json_dumps(tg["val"]), is_current=0 if edited else 1):
                w.labels.add("tag")
                if edited:
                    h1 = hash_tag(ent_id, tg["key"], tg["edit"][0], [h0])
                    db.insert("tag", tag_hash=h1, entity_type=etype[kind], entity_id=ent_id, key=tg["key"],
                              value=json_dumps(tg["edit"][0]), is_current=1)
                    db.insert("tag_edit", parent_id=h0, child_id=h1)
                    w.labels.add("tag-edit")
    c.execute("COMMIT")
    bad = c.execute("PRAGMA foreign_key_check").fetchall()
    if bad:
        raise HarnessError(f"populate wrote a referentially inconsistent database: {bad[:3]}")
    return w


# ====================================================================== library side
_templates: dict = {}


def quiet() -> None:
    import logging

    C.quiet_logs()
    logging.getLogger("alembic").setLevel(logging.CRITICAL)


def new_backend(path: str):
    from redun.backends.db import RedunBackendDb

    return RedunBackendDb(db_uri="sqlite:///" + path)


def work_dir(ctx: Ctx, name: str) -> str:
    """A fresh scratch directory for database files: inside the L4 lab's tmpfs root when there is one
    (SQLite fsyncs on every commit and a migration chain commits a lot), else ctx scratch. Both are
    outside /repo and /verif and removed at exit; callers remove theirs as soon as a case is done."""
    import tempfile

    try:
        root = dbx._root()
    except Exception:  # noqa: BLE001
        return ctx.fresh_dir(name)
    return tempfile.mkdtemp(prefix=f"c36-{name}-", dir=root)


def template(ctx: Ctx, v) -> str:
    """An empty file migrated to version v by the library (made once per process, then copied)."""
    key = vstr(v)
    if key not in _templates or not os.path.exists(_templates[key]):
        path = os.path.join(work_dir(ctx, "tpl"), f"v{key}.db")
        b = new_backend(path)
        try:
            with ctx.no_raise(f"migrate-empty-to-{key}", {"v": key}):
                b.create_engine()
                b.migrate(desired_version=v)
                got = b.get_db_version()
            ctx.require(vstr(got) == key, f"empty-migrate-version:{key}",
                        f"empty file migrated to {key} reports version {got}", {"v": key})
        finally:
            dbx.close_backend(b)
        _templates[key] = path
    return _templates[key]


def step_upgrade(path: str, v) -> None:
    b = new_backend(path)
    try:
        b.create_engine()
        b.migrate(desired_version=v)
    finally:
        dbx.close_backend(b)


_blame_memo: dict = {}


def blame(ctx: Ctx, pre_path: str, start, memo_key, still_ok) -> str:
    """Upgrade a copy of the populated start file one version at a time; the first version after which
    still_ok(conn) is false names the migration."""
    mk = (vstr(start),) + tuple(memo_key)
    if mk in _blame_memo:
        return _blame_memo[mk]
    work = os.path.join(work_dir(ctx, "blame"), "b.db")
    shutil.copyfile(pre_path, work)
    found = "unattributed"
    try:
        for v in versions():
            if not v > start:
                continue
            step_upgrade(work, v)
            conn = sqlite3.connect(work)
            try:
                ok = still_ok(conn)
            finally:
                conn.close()
            if not ok:
                found = v.migration_id
                break
    except Exception:  # noqa: BLE001 - attribution is best effort, the mismatch itself is already established
        found = "unattributed"
    shutil.rmtree(os.path.dirname(work), ignore_errors=True)
    _blame_memo[mk] = found
    return found


def same_cell(a, b, is_time: bool) -> bool:
    if is_time:
        ia, ib = instant(a), instant(b)
        if ia is not None and ib is not None:
            return ia == ib
    if isinstance(a, float) or isinstance(b, float):
        return a == b
    return type(a) is type(b) and a == b


def compare(ctx: Ctx, case, start, pre_path, before: dict, sb: dict, after: dict, sa: dict, w: Written) -> list:
    """Row-by-row oracle. Returns a list of Violations (all of them, so known findings do not hide others)."""
    out: list = []
    seen_keys: set = set()
    exec_root = {row["id"]: row["job_id"] for row in after.get("execution", [])}

    def add(key, msg):
        if key not in seen_keys:
            seen_keys.add(key)
            out.append(Violation(key, msg, case))

    for t in sorted(before):
        if t in SKIP_TABLES or t not in after:
            continue
        pk = sb[t]["pk"] or sb[t]["cols"]
        pk = [c for c in pk if c in sa[t]["cols"]]
        shared = [c for c in sb[t]["cols"] if c in sa[t]["cols"]]
        index = {}
        for row in after[t]:
            index.setdefault(tuple(row[c] for c in pk), []).append(row)
        ctx.coverage_extra["rows_compared"] = ctx.coverage_extra.get("rows_compared", 0) + len(before[t])
        for row in before[t]:
            k = tuple(row[c] for c in pk)
            cands = index.get(k, [])
            if not cands:
                def ok(conn, t=t, pk=pk, k=k):
                    cond = " and ".join(f'"{c}" is ?' for c in pk)
                    return conn.execute(f'select count(*) from "{t}" where {cond}', list(k)).fetchone()[0] > 0
                mig = blame(ctx, pre_path, start, ("row-lost", t), ok)
                add(f"row-lost:{mig}:{t}", f"{t} row with {dict(zip(pk, k))} present at {vstr(start)} is missing after "
                                           f"the upgrade ({len(before[t])} rows before, {len(after[t])} after)")
                continue
            new = cands[0]
            for col in shared:
                a, b = row[col], new[col]
                is_time = "DATE" in sb[t]["types"][col] or "DATE" in sa[t]["types"][col]
                if same_cell(a, b, is_time):
                    continue
                if t == "job" and col == "execution_id" and a is None:
                    want = w.job_root.get(row["id"])
                    if exec_root.get(b) != want:
                        add(f"backfill-wrong:{t}.{col}", f"job {row['id']} had no execution_id at {vstr(start)}; the upgrade "
                                                         f"filled in {b!r}, an execution whose root job is {exec_root.get(b)!r}, "
                                                         f"but the job's root is {want!r}")
                    continue
                kind = "value-changed"
                if is_time:
                    ia, ib = instant(a), instant(b)
                    if (ia is not None and ib is not None and ia.microsecond and not ib.microsecond
                            and abs(ib - ia) < dt.timedelta(seconds=1)):
                        kind = "timestamp-fraction-lost"   # truncated, or rounded to the nearest second

                def ok(conn, t=t, pk=pk, k=k, col=col, a=a, is_time=is_time):
                    cond = " and ".join(f'"{c}" is ?' for c in pk)
                    got = conn.execute(f'select "{col}" from "{t}" where {cond}', list(k)).fetchone()
                    return got is not None and same_cell(a, got[0], is_time)
                mig = blame(ctx, pre_path, start, (kind, t, col), ok)
                add(f"{kind}:{mig}:{t}.{col}",
                    f"{t}.{col} of row {dict(zip(pk, k))}: {a!r} at {vstr(start)} became {b!r} after upgrading to "
                    f"{vstr(versions()[-1])} (first differs after migration {mig})")
    # derived column: job.execution_id did not exist at the start -> must name the owning execution
    if "job" in after and "execution_id" in sa["job"]["cols"] and "execution_id" not in sb.get("job", {"cols": []})["cols"]:
        for row in after["job"]:
            want = w.job_root.get(row["id"])
            if want is not None and exec_root.get(row["execution_id"]) != want:
                add("backfill-wrong:job.execution_id",
                    f"job {row['id']} (root job {want}) got execution_id {row['execution_id']!r} from the upgrade, "
                    f"an execution whose root job is {exec_root.get(row['execution_id'])!r}")
                break
    return out


def orm_read(b) -> None:
    from redun.backends import db as D

    s = b.session
    for model in (D.Execution, D.Job, D.CallNode, D.CallEdge, D.Value, D.Task, D.Argument, D.ArgumentResult,
                  D.Evaluation, D.CallSubtreeTask, D.Handle, D.HandleEdge, D.File, D.Subvalue, D.Tag, D.TagEdit,
                  D.RedunVersion):
        s.query(model).all()
    for ex in s.query(D.Execution).all():
        _ = ex.status
    for j in s.query(D.Job).all():
        _ = (j.duration, j.status)
    s.rollback()


def cache_oracle(ctx: Ctx, case, b, w: Written, add) -> None:
    ht = harness_tasks()
    sched = C.new_scheduler(backend=b)
    ctl = C.Ctl()
    ctl.attach(sched)
    for kind, x, y, want, has_eval in w.probes:
        if kind == "single" and not has_eval:
            continue   # no evaluation table at the start version: nothing was cached through it
        task = ht[kind]
        name = task.fullname
        n0, c0 = ctl.calls[name], _CALLS[task.name]
        with ctx.no_raise(f"cached-run:{kind}", case):
            got = sched.run(task(x, y) if kind == "single" else task(x))
        if ctl.calls[name] != n0 or _CALLS[task.name] != c0:
            add(f"cache-miss:{kind}", f"{name}({x!r}{', ' + repr(y) if kind == 'single' else ''}) was recorded at "
                                      f"{case['v']} with today's hashes; after the upgrade the scheduler ran the function again")
        elif not V.deep_typed_equal(got, want):
            add(f"cache-wrong-value:{kind}", f"{name}({x!r}) cache hit returned {got!r}, recorded result was {want!r}")
    # the upgraded file takes new records and serves them back
    t = ht["single"]
    n0 = ctl.calls[t.fullname]
    with ctx.no_raise("fresh-run-after-upgrade", case):
        r1 = sched.run(t("fresh-probe", 7))
        n1 = ctl.calls[t.fullname]
        r2 = sched.run(t("fresh-probe", 7))
        n2 = ctl.calls[t.fullname]
    if n1 != n0 + 1:
        raise HarnessError(f"call counting is not live: fresh call executed {n1 - n0} times")
    if n2 != n1 or r1 != r2:
        add("cache-miss:fresh", "a call recorded after the upgrade was executed again on the next run")


# ====================================================================== one case
def evaluate(ctx: Ctx, case: dict) -> tuple:
    """Runs one case; returns (problems, Written)."""
    quiet()
    harness_tasks()
    start = version_of(case["v"])
    latest = versions()[-1]
    tpl = template(ctx, start)
    d = work_dir(ctx, "case")
    path = os.path.join(d, "redun.db")
    pre_path = os.path.join(d, "pre.db")
    problems: list = []
    seen: set = set()

    def add(key, msg):
        if key not in seen:
            seen.add(key)
            problems.append(Violation(key, msg, case))

    b = None
    try:
        shutil.copyfile(tpl, path)
        db = Db(path)
        try:
            w = populate(db, case)
            sb, before = db.schema, db.dump()
        finally:
            db.close()
        shutil.copyfile(path, pre_path)

        # ---- upgrade with the library's own entry points
        b = new_backend(path)
        with ctx.no_raise(f"upgrade-via-{case['via']}", case):
            if case["via"] == "migrate":
                b.create_engine()
                b.migrate()
            else:
                b.load()
        dbx.close_backend(b)
        b = None

        db = Db(path)
        try:
            sa, after = db.schema, db.dump()
        finally:
            db.close()
        for v in compare(ctx, case, start, pre_path, before, sb, after, sa, w):
            add(v.key, v.message)

        # ---- accepted by the library
        from redun.backends.db import RedunVersionError

        b = new_backend(path)
        try:
            with ctx.no_raise("load-upgraded", case, allow=(RedunVersionError,)):
                b.load()
        except RedunVersionError as e:
            add("load-rejects", f"load() rejects the file upgraded from {case['v']}: {e}")
            return problems, w
        with ctx.no_raise("version-query", case):
            got, compat = b.get_db_version(), b.is_db_compatible()
        if not compat or vstr(got) != vstr(latest):
            add("version-after-upgrade", f"after upgrading from {case['v']}: get_db_version()={got}, "
                                         f"is_db_compatible()={compat}, latest is {latest}")
        with ctx.no_raise("orm-read", case):
            orm_read(b)

        # ---- usable for caching
        cache_oracle(ctx, case, b, w, add)
        return problems, w
    finally:
        if b is not None:
            dbx.close_backend(b)
        shutil.rmtree(d, ignore_errors=True)


TZS = {"JST-9": dt.timedelta(hours=9), "NPT-5:45": dt.timedelta(hours=5, minutes=45), "XST+3": dt.timedelta(hours=-3)}


def evaluate_tz(ctx: Ctx, case: dict, tz: str) -> list:
    """The same populated file upgraded by a process whose local time zone is not UTC (fixed-offset
    zones, no DST). Pre-3.4 files hold naive LOCAL job times and the 3.3 -> 3.4 step re-expresses them
    in UTC: every job's start_time and end_time (when set) must denote the same instant afterwards,
    i.e. move by exactly the zone's offset — finished and unfinished jobs alike — and nothing else in
    the job table may change; files that start at 3.4 or later must not move at all."""
    import time as _time

    quiet()
    harness_tasks()
    start = version_of(case["v"])
    tpl = template(ctx, start)
    d = work_dir(ctx, "tzcase")
    path = os.path.join(d, "redun.db")
    problems: list = []
    b = None
    old_tz = os.environ.get("TZ")
    try:
        shutil.copyfile(tpl, path)
        db = Db(path)
        try:
            populate(db, case)
            before = db.dump()
        finally:
            db.close()
        os.environ["TZ"] = tz
        _time.tzset()
        try:
            b = new_backend(path)
            with ctx.no_raise(f"upgrade-under-{tz}", case):
                b.load()
            dbx.close_backend(b)
            b = None
        finally:
            if old_tz is None:
                os.environ.pop("TZ", None)
            else:
                os.environ["TZ"] = old_tz
            _time.tzset()
        db = Db(path)
        try:
            after = db.dump()
        finally:
            db.close()
        converts = (start.major, start.minor) < (3, 4)
        off = TZS[tz] if converts else dt.timedelta(0)
        rows = {r["id"]: r for r in after.get("job", [])}
        for r in before.get("job", []):
            n = rows.get(r["id"])
            if n is None:
                problems.append(Violation("tz:row-lost:job", f"job {r['id']} missing after upgrading under TZ={tz}", case))
                break
            for col in ("start_time", "end_time"):
                ia, ib = instant(r.get(col)), instant(n.get(col))
                if ia is None and ib is None:
                    continue
                if ia is None or ib is None or ib != ia - off:
                    kind = "unfinished-job" if r.get("end_time") is None else "finished-job"
                    problems.append(Violation(f"tz:instant-changed:job.{col}:{kind}",
                                              f"upgrade from {case['v']} under TZ={tz}: job {r['id']} {col} {r.get(col)!r} (local) "
                                              f"became {n.get(col)!r}; the same instant in UTC is {ia - off if ia else None} "
                                              f"(end_time of this job: {r.get('end_time')!r})", case))
                    return problems
        return problems
    finally:
        if b is not None:
            dbx.close_backend(b)
        shutil.rmtree(d, ignore_errors=True)


def settle(ctx: Ctx, problems: list, absorb: bool) -> None:
    unknown = [p for p in problems if not ctx.is_known(p.key)]
    if unknown:
        raise unknown[0]
    if not problems:
        return
    if not absorb:
        raise problems[0]
    for p in problems:
        ctx.absorb(p)


def run_case(ctx: Ctx, case: dict) -> None:
    w = None
    try:
        problems, w = evaluate(ctx, case)
        if case.get("tz"):
            problems = list(problems) + evaluate_tz(ctx, case, case["tz"])
    finally:
        labels = [f"start:{case['v']}", f"via:{case['via']}"]
        nt = False
        if w is not None:
            labels += sorted(w.labels)
            labels += [lab for lab, n in (("failed-job", w.failed), ("running-job", w.running),
                                          ("subsecond", w.subsecond)) if n]
            nt = w.execs >= 2 and w.failed > 0 and w.subsecond > 0
        ctx.case(case, labels=labels, nontrivial=nt)
    settle(ctx, problems, absorb=True)


def check(ctx: Ctx) -> None:
    per_version = ctx.n(6, 150)
    for v in versions():
        ctx.given(graphs(vstr(v)), lambda c: run_case(ctx, c), per_version)
    ctx.coverage_extra["start_versions"] = len(versions())


def replay(ctx: Ctx, case) -> None:
    problems, _ = evaluate(ctx, case)
    if case.get("tz"):
        problems = list(problems) + evaluate_tz(ctx, case, case["tz"])
    settle(ctx, problems, absorb=False)
