"""C25 — handle lineage and rollback follow the state model (backend histories + workflow histories)."""
from __future__ import annotations

import hashlib

from hypothesis import strategies as st
from redun import Handle

from vf.core import Ctx, HarnessError, Violation, canon
from vf.lab import ctl as C
from vf.lab import dbx

ID = "C25"
LEVEL = "exploration"
RULE = (
    "(a) Backend histories (<=20 ops, JSON lists) over redun.Handle states on a fresh SQLite backend: "
    "root (2 names x 2 init args), fork = what _preprocess_args does (child = parent.fork(key); "
    "advance_handle([parent], child)), call = what _postprocess_result does (child = "
    "parent.apply_call(call_hash); advance_handle([parent], child)), both optionally from a parent that "
    "the user forked explicitly first (h.fork(k)[.fork(k2)], never passed through the scheduler), merge "
    "= what merge_handles does (advance_handle(others, first)), rollback_handle(any state). Same parent "
    "+ same key/label derives the same state again. Preconditions the scheduler guarantees: advance "
    "only from states the model holds valid (or a not-yet-recorded root), merge only valid states and "
    "never an ancestor into its descendant, and never re-derive a merged state through one parent while "
    "another recorded parent of it is invalid; ops that break them are skipped. Oracle: reference lineage "
    "model (state -> parents, status unrecorded/valid/invalid): rollback(h) invalidates every state "
    "derived from h (transitively, explicit user forks included), h keeps its status; advance makes "
    "child and parents valid; after every op bool(is_valid_handle(s)) == (model status is valid) for "
    "every state ever built. (b) Workflow histories (<=6 runs on one backend, real Scheduler, "
    "harness-owned single-threaded executor): a generated DAG of <=4 calls of three handle-in/handle-out "
    "tasks over one Handle (chains, branches from a shared state, explicit .fork(key), merge_handles "
    "of the leaves, <=2 calls after the merge); between runs the version (source) of each task is "
    "edited / reverted / left alone. Oracles per run: first run executes every call once; a call "
    "whose task source differs from the previous run executes; every call data-downstream of an "
    "executed call executes (edited task and everything downstream of its handle; a revert is never "
    "fast-forwarded); nothing else executes (so an unchanged re-run executes nothing) — except the "
    "producer of the first merged handle when another merged branch executed and it does not read "
    "the root directly (its result state is a lineage child of the other branches; whether it is "
    "checked before or after their rollback is scheduling order, not asserted); no call executes "
    "twice in a run; every cache hit that the scheduler replays (_get_cache) contains only handle "
    "states that is_valid_handle accepts at that moment; after each run, validity of every state "
    "seen in advance_handle equals a lineage model fed with the observed advance/rollback calls. "
    "(c) Join histories: two or three tasks each advance the same root handle (distinct states of "
    "ONE handle name), a join task receives all of them (positionally, in a list, or by keyword) and "
    "returns one; optionally one more task follows; task versions are edited/reverted over 3-6 runs; "
    "same execution rules as (b): an edited or reverted call executes (a revert is never "
    "fast-forwarded: the edited run must have rolled back EVERY handle argument), everything "
    "downstream of an executed call executes, nothing else does. "
    "(d) Nested histories: main -> outer(init(root)); outer's body returns inner(fork) lazily, where the "
    "fork is outer's input or an explicit fork of it, passed positionally or by keyword; versions of "
    "init/outer/inner edited and reverted over 3-6 runs; every cache hit is searched for handle states, "
    "also inside the arguments of lazy calls, and none may be invalid; init/inner follow the execution rules. "
    "Non-trivial = (a) a rollback with a fork (two children) or a merge among the affected states, or "
    "re-derivation of an invalidated state; (b) a history with an edit followed by a revert, or an "
    "edit in a branched/merged DAG; (c) the join task reverted to an earlier version."
)
ASSUMPTIONS = [
    "handle-writing tasks are deterministic (same task source + same arguments -> same returned handle)",
    "the DAG shape is the same in every run of a workflow history; only task sources change",
    "one scheduler thread; jobs complete in submission order (order of completion is covered by C01/C02)",
    "all states of one lineage share one handle fullname (the scheduler never links different names)",
]
MANIFEST = {"technique": "model-based testing: generated advance/rollback histories vs. reference lineage model; "
                         "workflow edit/revert histories vs. documented re-execution rules (Hypothesis)"}

NS = "vf_c25"
NAMES = ["ha", "hb"]


class H(Handle):
    def __init__(self, name, x=0, namespace=None):
        self.x = x


# ====================================================================== reference lineage model
class Lineage:
    """States are opaque ids. status: None (never recorded) / True / False."""

    def __init__(self):
        self.parents: dict = {}
        self.children: dict = {}
        self.status: dict = {}
        self.recorded_edges: set = set()

    def add(self, s):
        self.parents.setdefault(s, set())
        self.children.setdefault(s, set())
        self.status.setdefault(s, None)

    def edge(self, p, c, recorded):
        self.add(p)
        self.add(c)
        self.parents[c].add(p)
        self.children[p].add(c)
        if recorded:
            self.recorded_edges.add((p, c))

    def descendants(self, s, recorded_only=False):
        seen, todo = set(), [s]
        while todo:
            n = todo.pop()
            for c in self.children.get(n, ()):
                if recorded_only and (n, c) not in self.recorded_edges:
                    continue
                if c not in seen:
                    seen.add(c)
                    todo.append(c)
        return seen

    def ancestors(self, s):
        seen, todo = set(), [s]
        while todo:
            n = todo.pop()
            for p in self.parents.get(n, ()):
                if p not in seen:
                    seen.add(p)
                    todo.append(p)
        return seen

    def advance(self, parents, child, chains=()):
        """chains: for each parent a list [base, f1, ..., parent] of explicit user forks."""
        for chain in chains:
            for a, b in zip(chain, chain[1:]):
                self.edge(a, b, recorded=False)
            for s in chain:
                self.status[s] = True
        for p in parents:
            self.edge(p, child, recorded=True)
            self.status[p] = True
        self.add(child)
        self.status[child] = True

    def rollback(self, s):
        hit = []
        for d in self.descendants(s):
            if self.status.get(d) is not None:
                if self.status[d]:
                    hit.append(d)
                self.status[d] = False
        return hit


# ====================================================================== (a) backend histories
small = st.integers(0, 5)
sidx = st.one_of(small, small, st.integers(0, 40))
ukeys = st.one_of(st.just([]), st.just([]), st.lists(st.sampled_from(["a", "b"]), min_size=1, max_size=2))
fkey = st.sampled_from(["0", "0", "1", "1", "a"])
label = st.sampled_from(["c0", "c0", "c1", "c1", "c2"])


def _bops(explicit: bool):
    uk = ukeys if explicit else st.just([])
    fork = st.tuples(st.just("fork"), sidx, fkey, uk).map(list)
    call = st.tuples(st.just("call"), sidx, label, uk).map(list)
    return st.one_of(
        st.tuples(st.just("root"), st.sampled_from([0, 0, 0, 1]), st.sampled_from([0, 0, 0, 1])).map(list),
        fork, fork, fork, call, call, call,
        st.tuples(st.just("merge"), st.lists(sidx, min_size=2, max_size=3, unique=True)).map(list),
        st.tuples(st.just("merge"), st.lists(small, min_size=2, max_size=2, unique=True)).map(list),
        st.tuples(st.just("rollback"), st.one_of(st.integers(0, 3), sidx)).map(list),
        st.tuples(st.just("rollback"), st.one_of(st.integers(0, 3), sidx)).map(list),
        st.tuples(st.just("rollback"), st.one_of(st.integers(0, 3), sidx)).map(list),
    )


def _hist(op, lo=3, hi=20):
    # uniform over lengths (st.lists alone is heavily biased to min_size); shrinks towards lo
    return st.integers(lo, hi).flatmap(lambda n: st.lists(op, min_size=n, max_size=n))


backend_cases = st.one_of(_hist(_bops(False)), _hist(_bops(False)), _hist(_bops(True))).map(
    lambda ops: {"kind": "backend", "ops": ops})


class BackendWorld:
    def __init__(self, backend):
        self.b = backend
        self.model = Lineage()
        self.ids: dict = {}       # identity tuple -> state id
        self.ident: list = []     # state id -> identity
        self.objs: list = []      # state id -> Handle object (latest built)
        self.name: list = []      # state id -> name index
        self.labels: set = set()
        self.nontrivial = False
        self.last_rollback = None

    def state(self, identity, build):
        if identity not in self.ids:
            self.ids[identity] = len(self.ident)
            self.ident.append(identity)
            self.objs.append(None)
            self.name.append(identity[1] if identity[0] == "root" else self.name[identity[1]])
            self.model.add(self.ids[identity])
        s = self.ids[identity]
        obj = build()
        self.objs[s] = obj
        return s, obj

    def pick(self, i):
        return i % len(self.ident)

    def co_parent_invalid(self, child, listed):
        """A state that already has another recorded parent (a merge) which is currently not valid:
        deriving it again through one parent only leaves it with one established and one rolled-back
        derivation. The lineage model has no verdict for that (see final report); skipped."""
        m = self.model
        return any(p not in listed and m.status[p] is not True for p in m.parents.get(child, ()))

    def parent_chain(self, s, keys):
        """Explicit user forks from state s: returns (chain ids [s, f1, .., parent], parent object)."""
        chain = [s]
        obj = self.objs[s]
        for k in keys:
            prev = obj
            # h.fork(k) by the user and by the scheduler are one and the same state
            cur, obj = self.state(("fork", chain[-1], k), lambda prev=prev, k=k: prev.fork(k))
            chain.append(cur)
        return chain, obj

    def step(self, o):
        kind = o[0]
        m = self.model
        if kind == "root":
            self.state(("root", o[1], o[2]), lambda: H(NAMES[o[1]], o[2], namespace=NS))
            return
        if not self.ident:
            self.state(("root", 0, 0), lambda: H(NAMES[0], 0, namespace=NS))
        if kind in ("fork", "call"):
            s = self.pick(o[1])
            base_ok = m.status[s] is True or (m.status[s] is None and self.ident[s][0] == "root")
            if not base_ok:
                self.labels.add("skipped:parent-not-valid")
                return
            chain, pobj = self.parent_chain(s, o[3])
            p = chain[-1]
            if kind == "fork":
                c, cobj = self.state(("fork", p, o[2]), lambda: pobj.fork(o[2]))
            else:
                ch = hashlib.sha1(repr((self.ident[p], o[2])).encode()).hexdigest()
                c, cobj = self.state(("call", p, o[2]), lambda: pobj.apply_call(ch))
            if self.co_parent_invalid(c, [p]) or any(
                    self.co_parent_invalid(b_, [a_]) for a_, b_ in zip(chain, chain[1:])):
                self.labels.add("skipped:co-parent-invalid")
                return
            if m.status[c] is False:
                self.labels.add("rederive-invalidated")
                self.nontrivial = True
            if o[3]:
                self.labels.add("explicit-fork-parent")
            m.advance([p], c, chains=[chain] if len(chain) > 1 else [])
            self.b.advance_handle([pobj], cobj)
        elif kind == "merge":
            sel = []
            for i in o[1]:
                s = self.pick(i)
                if s not in sel:
                    sel.append(s)
            if len(sel) < 2 or len({self.name[s] for s in sel}) != 1 or any(m.status[s] is not True for s in sel):
                self.labels.add("skipped:merge-precondition")
                return
            final, others = sel[0], sel[1:]
            if any(final in m.ancestors(x) or final == x for x in others):
                self.labels.add("skipped:merge-cycle")
                return
            if self.co_parent_invalid(final, others):
                self.labels.add("skipped:co-parent-invalid")
                return
            self.labels.add("merge")
            m.advance(others, final)
            self.b.advance_handle([self.objs[x] for x in others], self.objs[final])
        elif kind == "rollback":
            s = self.pick(o[1])
            affected = m.descendants(s)
            hit = m.rollback(s)
            if hit:
                self.labels.add("rollback-invalidates")
                branched = any(len(m.children[x]) >= 2 for x in affected | {s})
                merged = any(len(m.parents[x]) >= 2 for x in affected)
                if branched:
                    self.labels.add("rollback-over-fork")
                if merged:
                    self.labels.add("rollback-over-merge")
                if branched or merged:
                    self.nontrivial = True
            self.last_rollback = s
            self.b.rollback_handle(self.objs[s])
        else:
            raise AssertionError(o)

    def compare(self, k, o, ops):
        m = self.model
        for s, obj in enumerate(self.objs):
            real = bool(self.b.is_valid_handle(obj))
            want = m.status[s] is True
            if real == want:
                continue
            what = f"after op {k} {o}: state {s} {self.ident[s]} is_valid_handle={real}, model status={m.status[s]}"
            if real and not want:
                via = "plain"
                r = self.last_rollback
                if r is not None and s in m.descendants(r):
                    if s not in m.descendants(r, recorded_only=True):
                        via = "explicit-fork-edge"
                    elif any(len(m.parents[x]) >= 2 for x in m.descendants(r)):
                        via = "merge"
                elif m.status[s] is None:
                    via = "never-recorded"
                raise Violation(f"lineage:stale-valid:{via}", what, ops)
            raise Violation(f"lineage:lost-valid:{o[0]}", what, ops)


def backend_oracle(ctx: Ctx, case) -> BackendWorld:
    ops = case["ops"]
    b = dbx.fresh_backend()
    w = BackendWorld(b)
    try:
        for k, o in enumerate(ops):
            with ctx.no_raise(f"handle-{o[0]}", case):
                w.step(o)
            with ctx.no_raise("is_valid_handle", case):
                w.compare(k, o, case)
    finally:
        dbx.discard_backend(b)
    return w


# ====================================================================== (b) workflow histories
@st.composite
def workflow_cases(draw):
    explicit = draw(st.sampled_from([False, False, True]))
    family = draw(st.sampled_from(["any", "any", "merge", "merge"]))
    n = draw(st.sampled_from([2, 2, 3, 3, 4] if family == "merge" else [1, 2, 2, 3, 3, 4, 4]))
    pre = []
    for i in range(n):
        src = draw(st.integers(-1, i - 1))
        if family == "merge" and i == n - 1:
            consumed = {p[1] for p in pre} | {src}
            if all(j in consumed for j in range(n - 1)):
                src = -1      # keep at least two leaves
        uf = draw(st.sampled_from([None, "a", "b"])) if explicit else None
        if uf is not None and any(p[1] == src and p[2] == uf for p in pre):
            uf = None     # same source + same key = same state (see oracle); keep it rare
        pre.append([draw(st.integers(0, 2)), src, uf])
    consumed = {p[1] for p in pre}
    leaves = [i for i in range(n) if i not in consumed]
    merge = None
    post = []
    if len(leaves) >= 2:
        if family == "merge":
            merge = draw(st.integers(0, len(leaves) - 1))
        else:
            merge = draw(st.one_of(st.none(), st.integers(0, len(leaves) - 1)))
    if merge is not None or len(leaves) == 1:
        for _ in range(draw(st.integers(1 if family == "merge" else 0, 2))):
            post.append([draw(st.integers(0, 2)), draw(st.sampled_from([None, "a"])) if explicit else None])
    nruns = draw(st.integers(2, 6))
    runs = [[0, 0, 0]]
    for _ in range(nruns - 1):
        prev = runs[-1]
        how = draw(st.sampled_from(["same", "edit", "edit", "edit2", "revert", "revert"]))
        cur = list(prev)
        if how == "edit":
            cur[draw(st.integers(0, 2))] = draw(st.integers(0, 2))
        elif how == "edit2":
            cur = [draw(st.integers(0, 2)) for _ in range(3)]
        elif how == "revert" and len(runs) >= 2:
            cur = list(runs[-2])
        runs.append(cur)
    return {"kind": "workflow", "pre": pre, "merge": merge, "post": post, "runs": runs, "kw": draw(st.booleans())}


class Shape:
    """Data-flow view of a workflow case. Node ids: pre nodes 0..n-1, post nodes n..n+m-1."""

    def __init__(self, case):
        self.pre = [list(p) for p in case["pre"]]
        self.post = [list(p) for p in case["post"]]
        self.merge = case["merge"]
        self.kw = bool(case.get("kw"))      # handles passed to the tasks by keyword
        n = len(self.pre)
        self.n = n
        self.total = n + len(self.post)
        consumed = {p[1] for p in self.pre}
        self.leaves = [i for i in range(n) if i not in consumed]
        if self.merge is not None and len(self.leaves) >= 2:
            r = self.merge % len(self.leaves)
            self.merged = self.leaves[r:] + self.leaves[:r]
        else:
            self.merged = []
        self.task = [p[0] for p in self.pre] + [p[0] for p in self.post]
        self.ufork = [p[2] for p in self.pre] + [p[1] for p in self.post]
        # consumers
        self.inputs: list = []
        for i, p in enumerate(self.pre):
            self.inputs.append([] if p[1] < 0 else [p[1]])
        for j in range(len(self.post)):
            if j > 0:
                self.inputs.append([n + j - 1])
            elif self.merged:
                self.inputs.append(list(self.merged))
            else:
                self.inputs.append([self.leaves[0]])
        self.down = {i: set() for i in range(self.total)}
        for i in range(self.total):
            for s in self.inputs[i]:
                self.down[s].add(i)

    def downstream(self, i):
        seen, todo = set(), [i]
        while todo:
            x = todo.pop()
            for c in self.down[x]:
                if c not in seen:
                    seen.add(c)
                    todo.append(c)
        return seen

    def path_has_explicit_fork(self, src, dst):
        """True if some data path src -> dst passes a consumer that forks its input explicitly."""
        todo, seen = [(src, False)], set()
        while todo:
            x, uf = todo.pop()
            for c in self.down[x]:
                uf2 = uf or self.ufork[c] is not None
                if c == dst and uf2:
                    return True
                if (c, uf2) not in seen:
                    seen.add((c, uf2))
                    todo.append((c, uf2))
        return False

    def branch_of(self, leaf):
        """Nodes of the merged branch ending in `leaf` (the leaf and its ancestors)."""
        out, todo = set(), [leaf]
        while todo:
            x = todo.pop()
            if x not in out:
                out.add(x)
                todo.extend(self.inputs[x])
        return out


def build_workflow(shape: Shape, versions, rec, backend):
    from redun import Task, merge_handles
    from redun.task import get_task_registry

    reg = get_task_registry()
    tasks = []
    for k in range(3):
        def mk(k):
            def w(conn, i):
                rec.append((i, k, versions[k], conn.__handle__.hash))
                return conn
            return w

        t = Task(mk(k), name=f"w{k}", namespace=NS,
                 source=f"def w{k}(conn, i):\n    # version {versions[k]}\n    return conn\n")
        reg.add(t)
        tasks.append(t)

    def main():
        root = H("conn", 1, namespace=NS)
        outs = []
        for i, (tk, src, uf) in enumerate(shape.pre):
            h = root if src < 0 else outs[src]
            if uf is not None:
                h = h.fork(uf)
            outs.append(tasks[tk](conn=h, i=i) if shape.kw else tasks[tk](h, i))
        if shape.merged:
            cur = merge_handles([outs[i] for i in shape.merged])
        elif len(shape.leaves) == 1:
            cur = outs[shape.leaves[0]]
        else:
            return [outs[i] for i in shape.leaves]
        for j, (tk, uf) in enumerate(shape.post):
            h = cur.fork(uf) if uf is not None else cur
            cur = tasks[tk](conn=h, i=shape.n + j) if shape.kw else tasks[tk](h, shape.n + j)
        return cur

    tm = Task(main, name="main", namespace=NS,
              source="main " + canon([shape.pre, shape.merge, shape.post, shape.kw]))
    reg.add(tm)
    return tm


class Spy:
    """Observes advance/rollback calls of the scheduler and feeds a Lineage keyed by handle hash."""

    def __init__(self, backend):
        self.b = backend
        self.model = Lineage()
        self.objs: dict = {}
        self.direct: set = set()
        self.calls: list = []
        self._adv = backend.advance_handle
        self._rb = backend.rollback_handle
        backend.advance_handle = self.advance
        backend.rollback_handle = self.rollback

    def restore(self):
        self.b.advance_handle = self._adv
        self.b.rollback_handle = self._rb

    def advance(self, parents, child):
        chains = []
        for p in parents:
            chain = [p]
            while chain[-1].__handle__.fork_parent is not None:
                chain.append(chain[-1].__handle__.fork_parent)
            chain.reverse()
            for h in chain:
                self.objs.setdefault(h.__handle__.hash, h)
            if len(chain) > 1:
                chains.append([h.__handle__.hash for h in chain])
        self.objs.setdefault(child.__handle__.hash, child)
        ph = [p.__handle__.hash for p in parents]
        self.direct.update(ph)
        self.direct.add(child.__handle__.hash)
        self.calls.append(("advance", [x[:6] for x in ph], child.__handle__.hash[:6]))
        self.model.advance(ph, child.__handle__.hash, chains=chains)
        return self._adv(parents, child)

    def rollback(self, handle):
        self.calls.append(("rollback", handle.__handle__.hash[:6]))
        self.model.add(handle.__handle__.hash)
        self.model.rollback(handle.__handle__.hash)
        return self._rb(handle)


def workflow_oracle(ctx: Ctx, case) -> list:
    from redun.handle import Handle as BaseHandle
    from redun.utils import iter_nested_value

    shape = Shape(case)
    runs = [list(r) for r in case["runs"]]
    labels = []
    b = dbx.fresh_backend()
    spy = Spy(b)
    try:
        sched = C.new_scheduler(backend=b)
        sched.load()
        replayed_invalid = []
        orig_get_cache = sched._get_cache

        def get_cache(job):
            result, was_cached, call_hash = orig_get_cache(job)
            if was_cached:
                for v in iter_nested_value(result):
                    if isinstance(v, BaseHandle) and not b.is_valid_handle(v):
                        replayed_invalid.append((job.task.fullname, v.__handle__.hash[:8]))
            return result, was_cached, call_hash

        sched._get_cache = get_cache
        deferred = None
        for r, versions in enumerate(runs):
            rec: list = []
            tm = build_workflow(shape, versions, rec, b)
            ctl = C.Ctl()
            ctl.attach(sched)
            with ctx.no_raise("scheduler run", case):
                result = sched.run(tm())
            executed = [x[0] for x in rec]
            eset = set(executed)
            where = f"run {r} versions={versions} executed={sorted(executed)}"
            if len(executed) != len(eset):
                raise Violation("wf:executed-twice", f"{where}: a call ran more than once in one run", case)
            if replayed_invalid:
                raise Violation("wf:replayed-invalid-handle",
                                f"{where}: cache hit replayed with invalid handle state(s) {replayed_invalid[:3]}", case)
            if r == 0:
                if eset != set(range(shape.total)):
                    raise Violation("wf:first-run-incomplete", f"{where}: expected every call once", case)
            else:
                edited = {i for i in range(shape.total) if versions[shape.task[i]] != runs[r - 1][shape.task[i]]}
                if not edited:
                    labels.append("rerun-unchanged")
                must = set(edited)
                for e in sorted(eset | edited):
                    must |= shape.downstream(e)
                for d in sorted(must - eset):
                    # the call reads an explicit fork of a task result, directly or further upstream
                    # of it below a call that did run: the lineage edge result -> fork is the one
                    # advance_handle does not record (one input class, one key)
                    ups = [e for e in sorted(eset | edited) if d in shape.downstream(e)]
                    ef = (shape.ufork[d] is not None and bool(shape.inputs[d])) or any(
                        shape.path_has_explicit_fork(e, d) for e in ups)
                    if ef:
                        key = "wf:not-reexecuted:explicit-fork"
                    elif d in edited:
                        key = "wf:edited-not-executed"
                    else:
                        key = "wf:downstream-not-reexecuted"
                    raise Violation(key, f"{where}: call {d} was replayed from cache although "
                                    + ("its task was edited/reverted since the previous run"
                                       if d in edited else f"call(s) {ups} upstream of its handle ran"), case)
                allowed = set(must)
                if shape.merged:
                    first = shape.merged[0]
                    others_ran = any(eset & shape.branch_of(x) - shape.branch_of(first) for x in shape.merged[1:])
                    reads_root = shape.pre[first][1] < 0
                    if others_ran and not reads_root:
                        allowed.add(first)
                        if first in eset and first not in must:
                            labels.append("merge-first-producer-reexecuted")
                # calls that fork the same source state with the same explicit key enter their task
                # with one and the same pre-call state: each is derived from the other's input, so a
                # rollback there invalidates both (the user declared them dependent) -- allowed.
                for i in sorted(eset):
                    if i < shape.n and shape.ufork[i] is not None:
                        for j in range(shape.n):
                            if j != i and shape.pre[j][1] == shape.pre[i][1] and shape.ufork[j] == shape.ufork[i]:
                                allowed.add(j)
                                allowed |= shape.downstream(j)
                                if j in eset and j not in must:
                                    labels.append("same-key-sibling-reexecuted")
                spurious = eset - allowed
                if spurious:
                    key = "wf:spurious-execution" + (":unchanged-rerun" if not edited else "")
                    raise Violation(key, f"{where}: calls {sorted(spurious)} ran although neither their task nor "
                                    f"anything upstream changed (edited={sorted(edited)})", case)
            # final result states are valid
            for v in iter_nested_value(result):
                if isinstance(v, BaseHandle) and not b.is_valid_handle(v):
                    raise Violation("wf:result-invalid", f"{where}: the run returned an invalid handle state", case)
            # lineage model fed with the observed calls
            m = spy.model
            for hsh in sorted(spy.direct):
                real = bool(b.is_valid_handle(spy.objs[hsh]))
                want = m.status[hsh] is True
                if real == want:
                    continue
                msg = (f"{where}: handle state {hsh[:8]} is_valid_handle={real} but the lineage model fed "
                       f"with the observed calls says {m.status[hsh]}; last calls {spy.calls[-6:]}")
                if real and any((p, c) not in m.recorded_edges for c in m.ancestors(hsh) | {hsh}
                                for p in m.parents[c]):
                    # Its ancestry contains an explicit user fork that advance_handle never got as
                    # [parent] -> child. Reported at the end of the history so that the observable
                    # consequence (a downstream call replayed from cache) is reported first if any.
                    if deferred is None:
                        deferred = Violation("wf:state-stale-valid:explicit-fork-edge", msg, case)
                    continue
                raise Violation("wf:state-stale-valid" if real else "wf:state-lost-valid", msg, case)
        if deferred is not None:
            raise deferred
    finally:
        spy.restore()
        dbx.discard_backend(b)
    return labels


# ====================================================================== (c) two states of one handle into one task
@st.composite
def join_cases(draw):
    """root -> w0 -> a, root -> w1 -> b (two distinct states of ONE handle name), join(a, b[, c])
    returns one of its handle arguments, optionally followed by w2; task versions edited/reverted
    between runs."""
    nin = draw(st.sampled_from([2, 2, 3]))
    pick = draw(st.integers(0, nin - 1))
    how = draw(st.sampled_from(["pos", "pos", "list", "kw"]))        # how the handles are passed
    post = draw(st.booleans())
    nruns = draw(st.integers(3, 6))
    runs = [[0, 0, 0, 0]]
    for _ in range(nruns - 1):
        prev = runs[-1]
        c = draw(st.sampled_from(["same", "edit-join", "edit-join", "edit", "revert", "revert"]))
        cur = list(prev)
        if c == "edit-join":
            cur[2] = (prev[2] + 1 + draw(st.integers(0, 1))) % 3
        elif c == "edit":
            k = draw(st.integers(0, 3))
            cur[k] = (prev[k] + 1) % 3
        elif c == "revert" and len(runs) >= 2:
            cur = list(runs[-2])
        runs.append(cur)
    return {"kind": "join", "nin": nin, "pick": pick, "how": how, "post": post, "runs": runs}


def join_oracle(ctx: Ctx, case) -> list:
    from redun import Task
    from redun.handle import Handle as BaseHandle
    from redun.task import get_task_registry
    from redun.utils import iter_nested_value

    nin, pick, how = case["nin"], case["pick"], case["how"]
    # node ids: 0..nin-1 producers (tasks w0, w1, w0), nin = join (task 2), nin+1 = post (task 3)
    task_of = [0, 1, 0][:nin] + [2] + ([3] if case["post"] else [])
    total = len(task_of)
    down = {i: ({nin} | ({nin + 1} if case["post"] else set())) for i in range(nin)}
    down[nin] = {nin + 1} if case["post"] else set()
    if case["post"]:
        down[nin + 1] = set()
    labels = []
    b = dbx.fresh_backend()
    try:
        sched = C.new_scheduler(backend=b)
        sched.load()
        replayed_invalid = []
        orig_get_cache = sched._get_cache

        def get_cache(job):
            result, was_cached, call_hash = orig_get_cache(job)
            if was_cached:
                for v in iter_nested_value(result):
                    if isinstance(v, BaseHandle) and not b.is_valid_handle(v):
                        replayed_invalid.append((job.task.fullname, v.__handle__.hash[:8]))
            return result, was_cached, call_hash

        sched._get_cache = get_cache
        reg = get_task_registry()
        for r, versions in enumerate(case["runs"]):
            rec: list = []

            def mk1(k):
                def w(conn, i):
                    rec.append(i)
                    return conn
                return Task(w, name=f"jw{k}", namespace=NS, source=f"def jw{k}(conn, i):\n    # version {versions[k]}\n    return conn\n")

            w0, w1, w3 = mk1(0), mk1(1), mk1(3)

            def jf(i, *conns, hs=None, **kw):
                rec.append(i)
                allh = list(conns) + list(hs or []) + [kw[k] for k in sorted(kw)]
                return allh[pick]

            tj = Task(jf, name="jjoin", namespace=NS, source=f"def jjoin(i, *conns, hs=None, **kw):\n    # version {versions[2]} pick {pick}\n")
            for t in (w0, w1, w3, tj):
                reg.add(t)

            def main():
                root = H("jconn", 1, namespace=NS)
                outs = [[w0, w1, w0][k](root, k) for k in range(nin)]
                if how == "pos":
                    cur = tj(nin, *outs)
                elif how == "list":
                    cur = tj(nin, hs=outs)
                else:
                    cur = tj(nin, **{f"c{k}": o for k, o in enumerate(outs)})
                if case["post"]:
                    cur = w3(cur, nin + 1)
                return cur

            tm = Task(main, name="jmain", namespace=NS, source="jmain " + canon([nin, pick, how, case["post"]]))
            reg.add(tm)
            ctl = C.Ctl()
            ctl.attach(sched)
            with ctx.no_raise("scheduler run", case):
                result = sched.run(tm())
            eset = set(rec)
            where = f"run {r} versions={versions} executed={sorted(rec)}"
            if len(rec) != len(eset):
                raise Violation("join:executed-twice", f"{where}: a call ran more than once in one run", case)
            if replayed_invalid:
                raise Violation("join:replayed-invalid-handle", f"{where}: cache hit replayed with invalid handle state(s) {replayed_invalid[:3]}", case)
            if r == 0:
                if eset != set(range(total)):
                    raise Violation("join:first-run-incomplete", f"{where}: expected every call once", case)
            else:
                prev = case["runs"][r - 1]
                edited = {i for i in range(total) if versions[task_of[i]] != prev[task_of[i]]}
                must = set(edited)
                for e in sorted(eset | edited):
                    todo = [e]
                    while todo:
                        x = todo.pop()
                        for c in down[x]:
                            if c not in must:
                                must.add(c)
                                todo.append(c)
                for d in sorted(must - eset):
                    key = "join:edited-not-executed" if d in edited else "join:downstream-not-reexecuted"
                    raise Violation(key, f"{where}: call {d} ({'join' if d == nin else 'producer' if d < nin else 'post'}) was replayed "
                                    f"from cache although " + ("its task was edited/reverted since the previous run (a revert must "
                                    "never be fast-forwarded: the edited run rolled its handle arguments back)" if d in edited
                                    else "a call upstream of its handle ran"), case)
                spurious = eset - must
                if how == "list":
                    # several handles inside ONE list argument: the pickle-based hash of the list
                    # depends on which sub-objects the handle states share (they share them when
                    # freshly derived, not when read back from the cache), so the call may miss the
                    # cache on a re-run. Re-executing is allowed by the property; only skipping is judged.
                    spurious = set()
                if spurious:
                    raise Violation("join:spurious-execution", f"{where}: calls {sorted(spurious)} ran although neither their task nor "
                                    f"anything upstream changed (edited={sorted(edited)})", case)
                if not edited:
                    labels.append("rerun-unchanged")
                if nin in edited and r >= 2 and versions[2] == case["runs"][r - 2][2]:
                    labels.append("join-reverted")
            for v in iter_nested_value(result):
                if isinstance(v, BaseHandle) and not b.is_valid_handle(v):
                    raise Violation("join:result-invalid", f"{where}: the run returned an invalid handle state", case)
    finally:
        dbx.discard_backend(b)
    return labels


# ====================================================================== (d) a task that forks its handle and passes it on
@st.composite
def nested_cases(draw):
    """main -> outer(init(root)); outer's body returns inner(<explicit fork of its input>) lazily, the
    fork passed positionally or by keyword; init / outer / inner versions edited and reverted."""
    nruns = draw(st.integers(3, 6))
    runs = [[0, 0, 0]]
    for _ in range(nruns - 1):
        prev = runs[-1]
        c = draw(st.sampled_from(["same", "edit-init", "edit-init", "edit", "revert", "revert"]))
        cur = list(prev)
        if c == "edit-init":
            cur[0] = (prev[0] + 1) % 3
        elif c == "edit":
            k = draw(st.integers(0, 2))
            cur[k] = (prev[k] + 1) % 3
        elif c == "revert" and len(runs) >= 2:
            cur = list(runs[-2])
        runs.append(cur)
    return {"kind": "nested", "kw": draw(st.booleans()), "fork": draw(st.sampled_from(["a", None])), "runs": runs}


def nested_oracle(ctx: Ctx, case) -> list:
    from redun import Task
    from redun.handle import Handle as BaseHandle
    from redun.task import get_task_registry
    from redun.utils import iter_nested_value

    labels = []
    b = dbx.fresh_backend()
    try:
        sched = C.new_scheduler(backend=b)
        sched.load()
        reg = get_task_registry()
        down = {0: {2}, 1: set(), 2: set()}
        replayed_invalid: list = []
        orig_get_cache = sched._get_cache

        def handles_in(v, depth=0):
            """Handle states anywhere in a cached result, also inside the arguments of lazy expressions."""
            from redun.expression import Expression

            if depth > 10:
                return
            if isinstance(v, BaseHandle):
                yield v
            elif isinstance(v, Expression):
                d = v.__dict__
                for a in list(d.get("args") or ()) + list((d.get("kwargs") or {}).values()):
                    yield from handles_in(a, depth + 1)
            elif isinstance(v, dict):
                for a in v.values():
                    yield from handles_in(a, depth + 1)
            elif isinstance(v, (list, tuple, set, frozenset)):
                for a in v:
                    yield from handles_in(a, depth + 1)

        def get_cache(job):
            result, was_cached, call_hash = orig_get_cache(job)
            if was_cached:
                for h in handles_in(result):
                    if not b.is_valid_handle(h):
                        replayed_invalid.append((job.task.fullname, h.__handle__.hash[:8]))
            return result, was_cached, call_hash

        sched._get_cache = get_cache
        for r, versions in enumerate(case["runs"]):
            rec: list = []

            def f_init(conn, i):
                rec.append(0)
                return conn

            def f_inner(conn, i):
                rec.append(2)
                return conn

            t_init = Task(f_init, name="n_init", namespace=NS, source=f"def n_init(conn, i):\n    # version {versions[0]}\n    return conn\n")
            t_inner = Task(f_inner, name="n_inner", namespace=NS, source=f"def n_inner(conn, i):\n    # version {versions[2]}\n    return conn\n")

            def f_outer(conn, i):
                rec.append(1)
                h = conn.fork(case["fork"]) if case["fork"] else conn
                return t_inner(conn=h, i=i) if case["kw"] else t_inner(h, i)

            t_outer = Task(f_outer, name="n_outer", namespace=NS,
                           source=f"def n_outer(conn, i):\n    # version {versions[1]} {case['kw']} {case['fork']}\n")

            def f_main():
                return t_outer(t_init(H("nconn", 1, namespace=NS), 0), 1)

            t_main = Task(f_main, name="n_main", namespace=NS, source="n_main " + canon([case["kw"], case["fork"]]))
            for t in (t_init, t_inner, t_outer, t_main):
                reg.add(t)
            ctl = C.Ctl()
            ctl.attach(sched)
            with ctx.no_raise("scheduler run", case):
                result = sched.run(t_main())
            eset = set(rec)
            where = f"run {r} versions={versions} executed={sorted(rec)}"
            if len(rec) != len(eset):
                raise Violation("nested:executed-twice", f"{where}: a call ran more than once in one run", case)
            if replayed_invalid:
                raise Violation("nested:replayed-invalid-handle", f"{where}: a cached result holding invalidated handle state(s) "
                                f"{replayed_invalid[:3]} was replayed (the state sits in the arguments of the lazy call the "
                                f"task returned)", case)
            if r == 0:
                if eset != {0, 1, 2}:
                    raise Violation("nested:first-run-incomplete", f"{where}: expected every call once", case)
            else:
                prev = case["runs"][r - 1]
                edited = {i for i in range(3) if versions[i] != prev[i]}
                # init and inner return their handle (its new state carries the task's hash): an edited
                # or reverted one executes, and inner executes whenever init did. outer returns a lazy
                # call: the states in it do not depend on outer's version and are re-derived when it or
                # init runs again, so outer may be replayed or run; what matters is the check above.
                must = {i for i in edited if i != 1}
                for e in sorted((eset | edited) - {1}):
                    must |= down[e]
                allowed = set(must) | {1, 2}
                for d in sorted(must - eset):
                    key = "nested:edited-not-executed" if d in edited else "nested:downstream-not-reexecuted"
                    raise Violation(key, f"{where}: call {['init', 'outer', 'inner'][d]} was replayed from cache although "
                                    + ("its task was edited/reverted since the previous run" if d in edited else
                                       "a call upstream of its handle ran (its cached result holds a handle state derived from "
                                       "a state that was rolled back)"), case)
                spurious = eset - allowed
                if spurious:
                    raise Violation("nested:spurious-execution", f"{where}: calls {sorted(spurious)} ran although nothing upstream changed", case)
                if 0 in edited and r >= 2 and versions[0] == case["runs"][r - 2][0]:
                    labels.append("init-reverted")
            for v in iter_nested_value(result):
                if isinstance(v, BaseHandle) and not b.is_valid_handle(v):
                    raise Violation("nested:result-invalid", f"{where}: the run returned an invalid handle state", case)
    finally:
        dbx.discard_backend(b)
    return labels


def run_nested_case(ctx: Ctx, case) -> None:
    labels = []
    try:
        labels = nested_oracle(ctx, case)
    finally:
        ctx.case(case, labels=["nested", f"kw:{case['kw']}", f"fork:{case['fork']}"] + sorted(set(labels)),
                 nontrivial="init-reverted" in labels)


def run_join_case(ctx: Ctx, case) -> None:
    labels = []
    try:
        labels = join_oracle(ctx, case)
    finally:
        ctx.case(case, labels=["join", f"how:{case['how']}", f"pick:{case['pick']}"] + sorted(set(labels)),
                 nontrivial="join-reverted" in labels)


# ====================================================================== drivers
def run_backend_case(ctx: Ctx, case) -> None:
    w = None
    try:
        w = backend_oracle(ctx, case)
    finally:
        labels = ["backend"] + [f"op:{k}" for k in sorted({o[0] for o in case["ops"]})]
        if w is not None:
            labels += sorted(w.labels)
        ctx.case(case, labels=labels, nontrivial=bool(w and w.nontrivial))


def run_workflow_case(ctx: Ctx, case) -> None:
    labels = []
    try:
        labels = workflow_oracle(ctx, case)
    finally:
        shape = Shape(case)
        runs = case["runs"]
        edit_then_revert = any(runs[i] != runs[i - 1] and runs[i - 2] == runs[i] for i in range(2, len(runs)))
        branched = any(len(v) >= 2 for v in shape.down.values()) or len(shape.leaves) >= 2
        edits = any(runs[i] != runs[i - 1] for i in range(1, len(runs)))
        labs = ["workflow"] + sorted(set(labels))
        if shape.merged:
            labs.append("wf:merge")
        if branched:
            labs.append("wf:branched")
        if any(u is not None for u in shape.ufork):
            labs.append("wf:explicit-fork")
        if edit_then_revert:
            labs.append("wf:edit-then-revert")
        ctx.case(case, labels=labs, nontrivial=edit_then_revert or (edits and (branched or bool(shape.merged))))


def check(ctx: Ctx) -> None:
    C.quiet_logs()
    ctx.given(backend_cases, lambda c: run_backend_case(ctx, c), ctx.n(300, 14000))
    ctx.given(workflow_cases(), lambda c: run_workflow_case(ctx, c), ctx.n(80, 2000))
    ctx.given(join_cases(), lambda c: run_join_case(ctx, c), ctx.n(40, 1200))
    ctx.given(nested_cases(), lambda c: run_nested_case(ctx, c), ctx.n(40, 1200))


def replay(ctx: Ctx, case) -> None:
    C.quiet_logs()
    if not isinstance(case, dict) or "kind" not in case:
        raise HarnessError("C25 case must be a dict with kind=backend|workflow")
    if case["kind"] == "backend":
        backend_oracle(ctx, case)
    elif case["kind"] == "join":
        join_oracle(ctx, case)
    elif case["kind"] == "nested":
        nested_oracle(ctx, case)
    else:
        workflow_oracle(ctx, case)
