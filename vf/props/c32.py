"""C32 — the remote job protocol (scratch files + oneshot entry point + job names) reproduces local execution.

Parts: "files" (a File-producing job re-run through the protocol while its output files are lost or altered),
"single" (one job through get_oneshot_command -> oneshot -> parse_job_result/parse_job_error),
"array" (write_array_job_scratch_files + oneshot --array-job with the index environment variable),
"grouping" (which jobs the job arrayer puts into one array job),
"names" (get_batch_job_name / get_hash_from_job_name round trip and job reuniting through
AWSBatchExecutor.gather_inflight_jobs / _submit against a faked Batch job listing).
"""
from __future__ import annotations

import contextlib
import hashlib
import os
import pickle
import shutil
import sys

from hypothesis import strategies as st

from vf.core import Ctx, Violation
from vf.lab import values as V

ID = "C32"
LEVEL = "exploration"
RULE = (
    "single: a generic importable task module (vf_remote_tasks: echo(*a, **kw), mix(a, b=2, *rest, k=None, "
    "**kw), maybe(kind, value, msg), boom(kind, msg)) is called with L1 argument values (named tuples, "
    "dataclasses, sets, bytes, nested containers) or made to raise ValueError/KeyError/ZeroDivisionError/"
    "AssertionError/custom picklable errors; the inputs are written by get_oneshot_command exactly as "
    "the executors do (optionally cache_scope=NONE with a stale output file present), the returned argv "
    "is run in-process with RedunClient().execute, and parse_job_result / parse_job_error are compared "
    "with calling task.func locally: deep typed equality of the value, or same exception type, args and "
    "message, and no output file for a failing job. array: 1-6 element jobs with distinct hashes, "
    "write_array_job_scratch_files + get_oneshot_command(array_uuid=..), then a generated sequence of "
    "(index, env var kind in AWS_BATCH_JOB_ARRAY_INDEX / JOB_COMPLETION_INDEX / BATCH_TASK_INDEX / "
    "--array-rank-env, the latter optionally with a platform variable also set to another index) runs; after every run the scratch tree is diffed: only element i's output/error "
    "file may change, and element i's result/error equals the local call on argument set i. names: "
    "prefixes over [A-Za-z0-9_-] (dashes, 'array' words, empty) and 32/40-hex hashes: "
    "get_hash_from_job_name(get_batch_job_name(p, h, array)) == h; a faked Batch listing (single jobs "
    "under several prefixes, array jobs with eval-hash files and shuffled in-flight child subsets, "
    "finished jobs, unrelated names, jobs that vanished from describe_jobs) is reunited through the real "
    "AWSBatchExecutor: every entry of the inflight map and every job placed in pending_batch_jobs by "
    "_submit must point at an in-flight remote job created for that same eval hash. grouping: jobs of "
    "tasks with equal short names in different namespaces and equal/different options: two jobs get "
    "the same JobDescription (array grouping key) exactly when they call the same task (full name) with "
    "the same options. files: a task that "
    "writes 1-3 files and returns them as a bare File / list / dict / nested tuple-list-dict / plain paths "
    "is run 2-4 times through the protocol in the same scratch directory (same eval hash: a retry or "
    "resubmission); between attempts a produced file is deleted, rewritten with other content, or left "
    "alone; after every attempt every File in the protocol's result must exist with the content a local "
    "call writes and carry the hash of the file as it is now (what a local call returns). Non-trivial = array "
    "size >= 2 run with an index other than 0, a raising call, a prefix containing dashes, or a files "
    "case with a container shape and a deletion/rewrite before a later attempt."
)
ASSUMPTIONS = [
    "job hashes are hex strings (eval hashes / uuid4().hex) and job-name prefixes use the characters AWS "
    "Batch allows in job names (letters, digits, '-', '_')",
    "exceptions raised by tasks are picklable (redun documents a repr() fallback for the others)",
    "an output file that pre-exists is only ignored when the job runs with cache_scope != BACKEND "
    "(with the backend cache scope oneshot deliberately reuses it)",
    "array elements carry distinct eval hashes (the scheduler deduplicates equal ones before submission)",
    "reuniting is checked for soundness only (the property says 'only pairs'); completeness is not asserted",
]
MANIFEST = {"technique": "differential (protocol run in-process vs local call) + model of the Batch job listing"}

HEX = "0123456789abcdef"


def hx(n: int, length: int = 40) -> str:
    return hashlib.sha512(f"vf-c32-{n}".encode()).hexdigest()[:length]


# ------------------------------------------------------------------------------- strategies
val = V.value_specs(max_leaves=5)
small_val = V.value_specs(max_leaves=3)
kw_names = st.sampled_from(["x", "y", "k", "b", "kw1", "é"])
RAISE_KINDS = ["value", "key", "verr", "custom", "zero", "assert"]
msg_st = st.one_of(st.sampled_from(["", "m", "bad thing", "é", "multi\nline", "'q'"]), st.integers(-3, 3))


@st.composite
def calls(draw, allow_raise=True, which=None):
    """A call spec: {"task", "args": [spec], "kwargs": [[name, spec]]} (always binds)."""
    if which is None:
        which = draw(st.sampled_from(["echo", "echo", "mix", "maybe", "maybe", "boom"] if allow_raise
                                     else ["echo", "mix", "maybe"]))
    if which == "echo":
        args = draw(st.lists(val, max_size=3))
        kwargs = draw(st.lists(st.tuples(kw_names, small_val), max_size=2, unique_by=lambda kv: kv[0]))
    elif which == "mix":
        args = draw(st.lists(val, min_size=1, max_size=4))
        names = ["k", "x", "y"] if len(args) >= 2 else ["b", "k", "x"]
        kwargs = draw(st.lists(st.tuples(st.sampled_from(names), small_val), max_size=2, unique_by=lambda kv: kv[0]))
    elif which == "maybe":
        kind = draw(st.sampled_from((["ok", "ok", "ok"] + RAISE_KINDS) if allow_raise else ["ok"]))
        args = [["str", kind], draw(val)]
        m = draw(msg_st)
        kwargs = [["msg", ["str", m] if isinstance(m, str) else ["int", m]]]
    else:
        kind = draw(st.sampled_from(RAISE_KINDS))
        m = draw(msg_st)
        args = [["str", kind], ["str", m] if isinstance(m, str) else ["int", m]]
        kwargs = []
    return {"task": which, "args": args, "kwargs": [list(kv) for kv in kwargs]}


scratch_names = st.sampled_from(["scratch", "scratch", "sc ratch", "s-c_r.atch", "é", "a/b"])

single_cases = st.fixed_dictionaries({
    "part": st.just("single"),
    "call": calls(),
    "hash": st.integers(0, 50),
    "scratch": scratch_names,
    "trailing_slash": st.booleans(),
    "no_cache": st.sampled_from([None, None, "NONE", "CSE"]),
    "stale_output": st.booleans(),
    "stale_error": st.booleans(),
})


@st.composite
def file_cases(draw):
    n = draw(st.integers(1, 3))
    contents = draw(st.lists(st.sampled_from(["a", "bb", "part 0\n", "", "é"]), min_size=n, max_size=n))
    attempts = draw(st.lists(st.sampled_from([None, ["delete", 0], ["delete", n - 1], ["rewrite", 0, "zz"],
                                              ["rewrite", n - 1, "other"], ["delete-all"]]), min_size=1, max_size=3))
    return {"part": "files", "shape": draw(st.sampled_from(["bare", "list", "dict", "nested", "paths"])),
            "contents": contents, "attempts": [None] + attempts, "hash": draw(st.integers(0, 50)),
            "scratch": draw(scratch_names), "trailing_slash": draw(st.booleans())}


@st.composite
def array_cases(draw):
    n = draw(st.sampled_from([1, 2, 2, 3, 3, 4, 5, 6]))
    which = draw(st.sampled_from(["echo", "echo", "maybe", "maybe", "mix"]))
    elems = []
    for _ in range(n):
        c = draw(calls(which=which))
        elems.append({"args": c["args"], "kwargs": c["kwargs"]})
    hashes = draw(st.lists(st.integers(0, 50), min_size=n, max_size=n, unique=True))
    # (index, how the index reaches the element, optional decoy: with an explicit --array-rank-env a
    # platform variable that is ALSO set, to another index, must be ignored)
    runs = draw(st.lists(st.tuples(st.integers(0, n - 1), st.sampled_from(["aws", "aws", "k8s", "gcp", "custom", "custom"]),
                                   st.one_of(st.none(), st.tuples(st.sampled_from(["aws", "k8s", "gcp"]), st.integers(0, n - 1)).map(list))),
                         min_size=1, max_size=n + 1))
    return {"part": "array", "task": which, "elems": elems, "hashes": hashes, "array_id": draw(st.integers(0, 9)),
            "runs": [list(r) for r in runs], "scratch": draw(scratch_names), "trailing_slash": draw(st.booleans())}


@st.composite
def grouping_cases(draw):
    """Jobs of real Task objects (same short names in different namespaces, equal or different
    options) as the job arrayer groups them into array jobs."""
    jobs = draw(st.lists(st.tuples(st.sampled_from(["alpha", "beta", None]), st.sampled_from(["process", "process", "other"]),
                                   st.sampled_from([{}, {}, {"memory": 2}, {"memory": 3}, {"vcpus": 1, "memory": 2}])),
                         min_size=2, max_size=6))
    return {"part": "grouping", "jobs": [list(j) for j in jobs]}


prefix_st = st.one_of(
    st.sampled_from(["redun-job", "batch-job", "a", "a-array", "array", "x--y", "pre_fix-", "-array", "my-pre_fix",
                     "liveratlas_spearmancor", "p-1-2"]),
    st.text(st.sampled_from(list("abXY01_-")), max_size=10),
)
INFLIGHT = ["SUBMITTED", "PENDING", "RUNNABLE", "STARTING", "RUNNING"]
status_st = st.sampled_from(INFLIGHT + ["RUNNING", "RUNNING", "SUCCEEDED", "FAILED"])


@st.composite
def name_cases(draw):
    exec_prefix = draw(prefix_st.filter(lambda p: len(p) > 0))
    other_prefixes = draw(st.lists(prefix_st, max_size=2))
    prefixes = [exec_prefix] + other_prefixes + [exec_prefix + "-2"]
    remote = []
    for _ in range(draw(st.integers(0, 5))):
        kind = draw(st.sampled_from(["single", "single", "array", "unrelated"]))
        if kind == "single":
            remote.append({"type": "single", "prefix": draw(st.sampled_from(prefixes)), "hash": draw(st.integers(0, 12)),
                           "status": draw(status_st), "gone": draw(st.sampled_from([False, False, False, True]))})
        elif kind == "array":
            n = draw(st.integers(1, 5))
            children = draw(st.lists(st.tuples(st.integers(0, n - 1), status_st), max_size=n + 1,
                                     unique_by=lambda c: c[0]))
            remote.append({"type": "array", "prefix": draw(st.sampled_from(prefixes)),
                           "hashes": draw(st.lists(st.integers(0, 12), min_size=n, max_size=n)),
                           "children": [list(c) for c in children], "status": draw(status_st),
                           "evalfile": draw(st.sampled_from([True, True, True, False]))})
        else:
            remote.append({"type": "unrelated", "status": draw(status_st),
                           "name": exec_prefix + draw(st.sampled_from(["_automation_headnode", "-headnode", "", "-",
                                                                       "-x-array", "_array"]))})
    submits = draw(st.lists(st.integers(0, 14), max_size=5))
    roundtrip = draw(st.lists(st.tuples(prefix_st, st.integers(0, 10**6), st.sampled_from([32, 40]), st.booleans()),
                              min_size=1, max_size=4))
    return {"part": "names", "exec_prefix": exec_prefix, "remote": remote, "submits": submits,
            "roundtrip": [list(r) for r in roundtrip]}


# ------------------------------------------------------------------------------- shared helpers
_state: dict = {}


def _env():
    """Imports (after VERIF_REPO is on sys.path) and one shared scheduler."""
    if not _state:
        import vf_remote_tasks as RT
        from vf.lab import ctl

        ctl.quiet_logs()
        # RedunClient.execute() resets the level to its --log-level default on every call
        import logging

        logging.getLogger("redun").disabled = True
        _state["RT"] = RT
        _state["tasks"] = {"echo": RT.echo, "mix": RT.mix, "maybe": RT.maybe, "boom": RT.boom, "mkfiles": RT.mkfiles}
    return _state


@contextlib.contextmanager
def _clean_process_state():
    """oneshot mutates sys.path / redun's import-path list / os.environ; restore them per case."""
    from redun.utils import clear_import_paths

    saved_path = list(sys.path)
    saved_env = {k: os.environ.get(k) for k in ENV_VARS.values()}
    for k in ENV_VARS.values():
        os.environ.pop(k, None)
    clear_import_paths()
    try:
        yield
    finally:
        sys.path[:] = saved_path
        clear_import_paths()
        for k, v in saved_env.items():
            if v is None:
                os.environ.pop(k, None)
            else:
                os.environ[k] = v


ENV_VARS = {"aws": "AWS_BATCH_JOB_ARRAY_INDEX", "k8s": "JOB_COMPLETION_INDEX", "gcp": "BATCH_TASK_INDEX",
            "custom": "VF_ARRAY_RANK"}


def _build_call(call):
    args = tuple(V.build(s) for s in call["args"])
    kwargs = {k: V.build(s) for k, s in call["kwargs"]}
    return args, kwargs


def _local(task, call):
    """('ok', value) or ('err', exception) from calling the task function locally on fresh arguments."""
    args, kwargs = _build_call(call)
    try:
        return ("ok", task.func(*args, **kwargs))
    except Exception as e:  # noqa: BLE001 - the task's own failure is the expected outcome
        return ("err", e)


def _same_error(a: BaseException, b: BaseException) -> bool:
    return type(a) is type(b) and V.deep_typed_equal(tuple(a.args), tuple(b.args)) and str(a) == str(b)


def _make_job(task, call, eval_hash):
    from redun.scheduler import Job

    args, kwargs = _build_call(call)
    job = Job(task, task(*args, **kwargs))
    job.eval_hash = eval_hash
    job.args = (args, kwargs)
    return job


def _prefix(ctx: Ctx, case) -> tuple[str, str]:
    root = ctx.fresh_dir("c32")
    p = os.path.join(root, case["scratch"])
    return root, (p + "/" if case["trailing_slash"] else p)


def _run_oneshot(ctx: Ctx, argv, case):
    """Run the oneshot argv in-process. Returns ('ok', value) / ('err', exc)."""
    from redun.cli import RedunClient

    try:
        return ("ok", RedunClient().execute(list(argv)))
    except SystemExit as e:  # argparse rejected the argv the executor helper produced
        raise Violation("oneshot:argv-rejected", f"oneshot argv {argv!r} was rejected by the CLI parser ({e})", case)
    except Exception as e:  # noqa: BLE001
        return ("err", e)


def _check_outcome(ctx: Ctx, prefix, job, expected, ran, case, who: str, planted_output: bool = False):
    """Compare what the scratch files say with the local outcome. An executor reads the output file
    when the remote process succeeded and the error file when it failed."""
    from redun.executors.scratch import SCRATCH_ERROR, SCRATCH_OUTPUT, get_job_scratch_file, parse_job_error, \
        parse_job_result

    with ctx.no_raise("parse_job_result", case):
        result, exists = parse_job_result(prefix, job)
    if expected[0] == "ok":
        ctx.require(ran[0] == "ok", f"{who}:raised-but-local-ok",
                    f"{who}: oneshot raised {ran[1]!r}, the local call returns {expected[1]!r}", case)
        ctx.require(exists, f"{who}:output-missing", f"{who}: no output file although the local call returns "
                    f"{expected[1]!r}", case)
        ctx.require(V.deep_typed_equal(result, expected[1]), f"{who}:result-differs",
                    f"{who}: protocol result {result!r} != local result {expected[1]!r}", case)
    else:
        ctx.require(ran[0] == "err", f"{who}:ok-but-local-raises",
                    f"{who}: oneshot returned {ran[1]!r}, the local call raises {expected[1]!r}", case)
        if not planted_output:
            # (a planted stale output survives a failing --no-cache run; executors read the error file
            # after a failure, so that is not asserted here)
            ctx.require(not exists and not os.path.exists(get_job_scratch_file(prefix, job, SCRATCH_OUTPUT)),
                        f"{who}:output-for-failed-job", f"{who}: an output file ({result!r}) was written by a call "
                        f"that raises {expected[1]!r}", case)
        ctx.require(os.path.exists(get_job_scratch_file(prefix, job, SCRATCH_ERROR)), f"{who}:error-missing",
                    f"{who}: no error file although the call raises {expected[1]!r}", case)
        with ctx.no_raise("parse_job_error", case):
            error, tb = parse_job_error(prefix, job)
        ctx.require(_same_error(error, expected[1]), f"{who}:error-differs",
                    f"{who}: protocol error {error!r} != local error {expected[1]!r}", case)


# ------------------------------------------------------------------------------- part "single"
def single_oracle(ctx: Ctx, case: dict) -> None:
    from redun.executors.command import get_oneshot_command
    from redun.executors.scratch import SCRATCH_ERROR, SCRATCH_OUTPUT, get_job_scratch_file
    from redun.file import File
    from redun.utils import pickle_dump

    env = _env()
    task = env["tasks"][case["call"]["task"]]
    expected = _local(task, case["call"])
    root, prefix = _prefix(ctx, case)
    try:
        with _clean_process_state():
            job = _make_job(task, case["call"], hx(case["hash"]))
            args, kwargs = job.args
            no_cache = case["no_cache"]
            job_options = {"cache_scope": no_cache} if no_cache else {}
            if case["stale_output"] and no_cache:
                with File(get_job_scratch_file(prefix, job, SCRATCH_OUTPUT)).open("wb") as out:
                    pickle_dump(["stale output of an earlier attempt"], out)
            if case["stale_error"]:
                with File(get_job_scratch_file(prefix, job, SCRATCH_ERROR)).open("wb") as out:
                    out.write(b"not a pickle: stale error of an earlier attempt")
            with ctx.no_raise("get_oneshot_command", case):
                argv = get_oneshot_command(prefix, job, task, args, kwargs, job_options=job_options)
            ctx.require(("--no-cache" in argv) == bool(no_cache), "single:no-cache-flag",
                        f"cache_scope={no_cache!r} but argv={argv!r}", case)
            ran = _run_oneshot(ctx, argv, case)
            _check_outcome(ctx, prefix, job, expected, ran, case, "single",
                           planted_output=bool(case["stale_output"] and no_cache))
            if expected[0] == "ok" and ran[0] == "ok":
                ctx.require(V.deep_typed_equal(ran[1], expected[1]), "single:return-differs",
                            f"oneshot returned {ran[1]!r}, local call returns {expected[1]!r}", case)
    finally:
        shutil.rmtree(root, ignore_errors=True)


# ------------------------------------------------------------------------------- part "grouping"
def grouping_oracle(ctx: Ctx, case: dict) -> None:
    """An array job runs ONE oneshot command (the first job's task) for all its elements, so two jobs
    may share an array only if they call the same task (full name) with the same options."""
    from redun import Task
    from redun.job_array import JobDescription
    from redun.scheduler import Job

    tasks = {}

    def task_for(ns, name):
        if (ns, name) not in tasks:
            def f(x):
                return x
            f.__name__ = name
            tasks[(ns, name)] = Task(f, name=name, namespace=ns or "", source=f"def {name}(x): return x  # {ns}")
        return tasks[(ns, name)]

    descrs = []
    for ns, name, opts in case["jobs"]:
        t = task_for(ns, name)
        t2 = t.options(**opts) if opts else t
        job = Job(t, t2(1))
        job.eval_options = dict(opts)
        with ctx.no_raise("JobDescription", case):
            descrs.append((JobDescription(job), (t.fullname, tuple(sorted(opts.items())))))
    for i, (d1, m1) in enumerate(descrs):
        for d2, m2 in descrs[i + 1:]:
            same = d1 == d2 and hash(d1) == hash(d2)
            if same and m1 != m2:
                what = "different tasks" if m1[0] != m2[0] else "different options"
                raise Violation(f"grouping:{'tasks' if m1[0] != m2[0] else 'options'}-share-an-array",
                                f"jobs of {m1} and {m2} ({what}) get the same array grouping key {d1!r}: they would be "
                                f"submitted as one array job, whose elements all run the first job's task", case)
            if not same and m1 == m2:
                raise Violation("grouping:same-call-split", f"two jobs of {m1} get different grouping keys {d1!r} / {d2!r}", case)


# ------------------------------------------------------------------------------- part "files"
def _walk_files(v, out):
    from redun.file import File

    if isinstance(v, File):
        out.append(v)
    elif isinstance(v, dict):
        for x in v.values():
            _walk_files(x, out)
    elif isinstance(v, (list, tuple, set, frozenset)):
        for x in v:
            _walk_files(x, out)
    return out


def files_oracle(ctx: Ctx, case: dict) -> None:
    from redun.executors.command import get_oneshot_command
    from redun.executors.scratch import parse_job_result
    from redun.file import File
    from redun.scheduler import Job

    env = _env()
    task = env["tasks"]["mkfiles"]
    root, prefix = _prefix(ctx, case)
    outdir = os.path.join(root, "produced")
    try:
        with _clean_process_state():
            args, kwargs = (outdir, case["shape"], list(case["contents"])), {}
            job = Job(task, task(*args))
            job.eval_hash = hx(case["hash"])
            job.args = (args, kwargs)
            want = {os.path.join(outdir, f"f{i}.txt"): c for i, c in enumerate(case["contents"])}
            nshape = {"bare": 1, "paths": 0}.get(case["shape"], len(case["contents"]))
            for a, pert in enumerate(case["attempts"]):
                if pert is not None:
                    if pert[0] == "delete-all":
                        shutil.rmtree(outdir, ignore_errors=True)
                    else:
                        p = os.path.join(outdir, f"f{pert[1]}.txt")
                        if pert[0] == "delete":
                            if os.path.exists(p):
                                os.remove(p)
                        else:
                            os.makedirs(outdir, exist_ok=True)
                            with open(p, "w") as f:
                                f.write(pert[2])
                            st_ = os.stat(p)
                            os.utime(p, (st_.st_atime + 5 * (a + 1), st_.st_mtime + 5 * (a + 1)))
                with ctx.no_raise("get_oneshot_command", case):
                    argv = get_oneshot_command(prefix, job, task, args, kwargs)
                ran = _run_oneshot(ctx, argv, case)
                ctx.require(ran[0] == "ok", "files:raised", f"attempt {a}: oneshot raised {ran[1]!r}", case)
                with ctx.no_raise("parse_job_result", case):
                    result, exists = parse_job_result(prefix, job)
                ctx.require(exists, "files:output-missing", f"attempt {a}: no output file", case)
                got = _walk_files(result, [])
                ctx.require(len(got) == nshape, "files:result-shape", f"attempt {a}: result {result!r} holds {len(got)} "
                            f"Files, a local call returns {nshape}", case)
                for f in got:
                    w = want.get(f.path)
                    ctx.require(w is not None, "files:result-shape", f"attempt {a}: unexpected File {f.path}", case)
                    what = "lost" if pert and pert[0].startswith("delete") else "altered" if pert else "intact"
                    ctx.require(os.path.exists(f.path), f"files:stale-result:{case['shape']}:missing-file",
                                f"attempt {a} (after a produced file was {what}): the protocol's result refers to "
                                f"{f.path}, which does not exist; a local call re-creates it", case)
                    with open(f.path) as fh:
                        content = fh.read()
                    ctx.require(content == w, f"files:stale-result:{case['shape']}:wrong-content",
                                f"attempt {a} (file {what}): {f.path} holds {content!r}, a local call writes {w!r}", case)
                    ctx.require(f.hash == File(f.path).hash, f"files:stale-result:{case['shape']}:stale-hash",
                                f"attempt {a} (file {what}): the result's File hash for {f.path} is not the hash of "
                                f"the file as it is now", case)
    finally:
        shutil.rmtree(root, ignore_errors=True)


# ------------------------------------------------------------------------------- part "array"
def _snapshot(root: str) -> dict:
    snap = {}
    for d, _, files in os.walk(root):
        for f in files:
            p = os.path.join(d, f)
            with open(p, "rb") as fh:
                snap[p] = fh.read()
    return snap


def array_oracle(ctx: Ctx, case: dict) -> None:
    from redun.executors.command import get_oneshot_command
    from redun.executors.scratch import SCRATCH_ERROR, SCRATCH_OUTPUT, get_job_scratch_file, \
        write_array_job_scratch_files

    env = _env()
    task = env["tasks"][case["task"]]
    n = len(case["elems"])
    calls_ = [{"task": case["task"], "args": e["args"], "kwargs": e["kwargs"]} for e in case["elems"]]
    root, prefix = _prefix(ctx, case)
    array_id = hx(1000 + case["array_id"], 32)
    try:
        with _clean_process_state():
            jobs = [_make_job(task, c, hx(h)) for c, h in zip(calls_, case["hashes"])]
            with ctx.no_raise("write_array_job_scratch_files", case):
                write_array_job_scratch_files(jobs, prefix, array_id)
            with ctx.no_raise("get_oneshot_command", case):
                argv = get_oneshot_command(prefix, jobs[0], task, array_uuid=array_id)
            ctx.require("--array-job" in argv, "array:flag-missing", f"argv lacks --array-job: {argv!r}", case)
            for step, run_ in enumerate(case["runs"]):
                i, envkind = run_[0], run_[1]
                decoy = run_[2] if len(run_) > 2 and envkind == "custom" and run_[2] and run_[2][1] != i else None
                expected = _local(task, calls_[i])   # fresh arguments: element i's own argument set
                run_argv = list(argv)
                if envkind == "custom":
                    k = run_argv.index("oneshot")
                    run_argv[k + 1:k + 1] = ["--array-rank-env", ENV_VARS["custom"]]
                before = _snapshot(root)
                os.environ[ENV_VARS[envkind]] = str(i)
                if decoy:
                    os.environ[ENV_VARS[decoy[0]]] = str(decoy[1])
                try:
                    ran = _run_oneshot(ctx, run_argv, case)
                finally:
                    os.environ.pop(ENV_VARS[envkind], None)
                    if decoy:
                        os.environ.pop(ENV_VARS[decoy[0]], None)
                after = _snapshot(root)
                own = {os.path.normpath(get_job_scratch_file(prefix, jobs[i], SCRATCH_OUTPUT)),
                       os.path.normpath(get_job_scratch_file(prefix, jobs[i], SCRATCH_ERROR))}
                changed = {p for p in set(before) | set(after) if before.get(p) != after.get(p)}
                foreign = sorted(p for p in changed if os.path.normpath(p) not in own)
                if foreign:
                    rel = [os.path.relpath(p, root) for p in foreign]
                    names = {hx(h): j for j, h in enumerate(case["hashes"])}
                    whose = sorted({names.get(r.split(os.sep)[-2], "?") for r in rel}, key=str)
                    raise Violation("array:wrote-foreign-file",
                                    f"run {step} (index {i} via {envkind}) changed files that are not element {i}'s own "
                                    f"output/error: {rel} (elements {whose})", case)
                _check_outcome(ctx, prefix, jobs[i], expected, ran, case, "array")
    finally:
        shutil.rmtree(root, ignore_errors=True)


# ------------------------------------------------------------------------------- part "names"
class _Paginator:
    def __init__(self, listing):
        self.listing = listing

    def paginate(self, **kw):
        status = kw["jobStatus"]
        if "arrayJobId" in kw:
            rows = [j for j in self.listing if j.get("parent") == kw["arrayJobId"] and j["status"] == status]
        else:
            rows = [j for j in self.listing if "parent" not in j and j["status"] == status]
        rows = [{k: v for k, v in j.items() if k not in ("parent", "gone")} for j in rows]
        # two pages, like a real paginated answer
        h = len(rows) // 2
        yield {"jobSummaryList": rows[:h]}
        yield {"jobSummaryList": rows[h:]}


class _BatchClient:
    def __init__(self, listing):
        self.listing = listing

    def get_paginator(self, name):
        assert name == "list_jobs", name
        return _Paginator(self.listing)


def names_oracle(ctx: Ctx, case: dict) -> None:
    from redun.config import Config
    from redun.executors import aws_batch, aws_utils
    from redun.executors.scratch import SCRATCH_HASHES, get_array_scratch_file
    from redun.file import File

    env = _env()
    # (1) name round trip
    for prefix, hn, length, array in case["roundtrip"]:
        h = hx(hn, length)
        with ctx.no_raise("get_batch_job_name/get_hash_from_job_name", case):
            name = aws_batch.get_batch_job_name(prefix, h, array=array)
            back = aws_batch.get_hash_from_job_name(name)
        cls = "dashed-prefix" if "-" in prefix else "plain-prefix"
        ctx.require(back == h, f"names:roundtrip:{cls}{':array' if array else ''}",
                    f"get_hash_from_job_name({name!r}) = {back!r}, the name was built for hash {h!r}", case)

    # (2) reuniting against a faked Batch listing
    root = ctx.fresh_dir("c32n")
    scratch = os.path.join(root, "scratch")
    other_scratch = os.path.join(root, "other")
    listing = []        # what the fake Batch API lists
    created_for = {}    # batch job id -> (eval hash it was created for, in-flight?)
    try:
        for k, r in enumerate(case["remote"]):
            if r["type"] == "single":
                jid = f"s{k}"
                listing.append({"jobId": jid, "jobName": aws_batch.get_batch_job_name(r["prefix"], hx(r["hash"])),
                                "status": r["status"], "gone": r["gone"]})
                created_for[jid] = (hx(r["hash"]), r["status"] in INFLIGHT)
            elif r["type"] == "array":
                jid = f"a{k}"
                uuid = hx(100 + k, 32)
                listing.append({"jobId": jid, "jobName": aws_batch.get_batch_job_name(r["prefix"], uuid, array=True),
                                "status": r["status"]})
                if r["evalfile"]:
                    with File(get_array_scratch_file(scratch, uuid, SCRATCH_HASHES)).open("w") as f:
                        f.write("\n".join(hx(h) for h in r["hashes"]))
                else:
                    with File(get_array_scratch_file(other_scratch, uuid, SCRATCH_HASHES)).open("w") as f:
                        f.write("\n".join(hx(h + 1) for h in r["hashes"]))
                for idx, status in r["children"]:
                    cid = f"{jid}:{idx}"
                    listing.append({"jobId": cid, "jobName": aws_batch.get_batch_job_name(r["prefix"], uuid, array=True),
                                    "status": status, "arrayProperties": {"index": idx}, "parent": jid})
                    created_for[cid] = (hx(r["hashes"][idx]), status in INFLIGHT and r["status"] in INFLIGHT)
            else:
                listing.append({"jobId": f"u{k}", "jobName": r["name"], "status": r["status"]})

        config = Config({"batch": {"image": "img", "queue": "q", "s3_scratch": scratch, "code_package": "false",
                                   "job_name_prefix": case["exec_prefix"], "aws_region": "us-east-1"}})
        if "sched" not in env:
            from vf.lab import ctl

            env["sched"] = ctl.new_scheduler()
        executor = aws_batch.AWSBatchExecutor("batch", env["sched"], config["batch"])
        added = []
        executor.arrayer.add_job = added.append

        def fake_start():
            executor.is_running = True

        executor._start = fake_start
        saved = (aws_utils.get_aws_client, aws_batch.aws_describe_jobs)
        aws_utils.get_aws_client = lambda service, aws_region=None: _BatchClient(listing)
        aws_batch.aws_describe_jobs = lambda job_ids, aws_region=None, **kw: iter(
            [{"jobId": j["jobId"], "status": j["status"]} for j in listing
             if j["jobId"] in job_ids and not j.get("gone")])
        try:
            with ctx.no_raise("gather_inflight_jobs", case):
                executor.gather_inflight_jobs()
            mapping = dict(executor.preexisting_batch_jobs)
            hashes_in_play = {hx(i) for i in range(0, 15)}
            for h, jid in mapping.items():
                if h not in hashes_in_play:
                    continue    # a token parsed from an unrelated name; can never equal a job's eval hash
                made = created_for.get(jid)
                ctx.require(made is not None and made[0] == h, "reunite:map-wrong-hash",
                            f"inflight map pairs eval hash {h[:8]} with batch job {jid!r}, which was created for "
                            f"{made and made[0][:8]!r}", case)
                ctx.require(made[1], "reunite:map-not-inflight",
                            f"inflight map holds batch job {jid!r} which is not in flight", case)
            # submit redun jobs and see who gets reunited
            task = env["tasks"]["echo"]
            for s, hn in enumerate(case["submits"]):
                job = _make_job(task, {"task": "echo", "args": [["int", s]], "kwargs": []}, hx(hn))
                n_added = len(added)
                with ctx.no_raise("AWSBatchExecutor._submit", case):
                    executor._submit(job)
                paired = [jid for jid, j in executor.pending_batch_jobs.items() if j is job]
                ctx.require(len(paired) + (len(added) - n_added) == 1, "reunite:job-lost-or-doubled",
                            f"submitted job {s} (hash {hx(hn)[:8]}): reunited with {paired}, newly queued "
                            f"{len(added) - n_added} times", case)
                for jid in paired:
                    made = created_for.get(jid)
                    ctx.require(made is not None and made[0] == job.eval_hash, "reunite:paired-wrong-hash",
                                f"job with eval hash {job.eval_hash[:8]} was reunited with batch job {jid!r} created "
                                f"for {made and made[0][:8]!r}", case)
                    ctx.require(made[1], "reunite:paired-not-inflight",
                                f"job was reunited with batch job {jid!r} which is not in flight", case)
                    ctx.label("names:reunited-array-child" if ":" in jid else "names:reunited-single")
        finally:
            aws_utils.get_aws_client, aws_batch.aws_describe_jobs = saved
    finally:
        shutil.rmtree(root, ignore_errors=True)


# ------------------------------------------------------------------------------- labels / drivers
def _raises(call) -> bool:
    return call["task"] == "boom" or (call["task"] == "maybe" and call["args"][0][1] != "ok")


def labels(case: dict):
    part = case["part"]
    if part == "grouping":
        names = {(ns, n) for ns, n, _ in case["jobs"]}
        clash = len({n for _, n in names}) < len(names)
        return [f"grouping:same-short-name={clash}"], clash
    if part == "files":
        pert = any(p is not None for p in case["attempts"])
        return [f"files:shape={case['shape']}", f"files:perturbed={pert}"], (pert and case["shape"] not in ("bare", "paths"))
    if part == "single":
        r = _raises(case["call"])
        labs = [f"single:task={case['call']['task']}", f"single:raises={r}", f"single:no_cache={case['no_cache']}"]
        if case["stale_output"] and case["no_cache"]:
            labs.append("single:stale-output")
        return labs, r
    if part == "array":
        n = len(case["elems"])
        nonzero = any(r_[0] != 0 for r_ in case["runs"])
        r = any(_raises({"task": case["task"], **e}) for e in case["elems"])
        labs = [f"array:n={n}", f"array:task={case['task']}", f"array:index>0={nonzero}", f"array:has-raising={r}"]
        labs += sorted({f"array:env={r_[1]}" for r_ in case["runs"]})
        if any(len(r_) > 2 and r_[1] == "custom" and r_[2] and r_[2][1] != r_[0] for r_ in case["runs"]):
            labs.append("array:decoy-platform-variable")
        return labs, (n >= 2 and nonzero)
    dashed = "-" in case["exec_prefix"] or any("-" in r[0] for r in case["roundtrip"])
    kinds = sorted({r["type"] for r in case["remote"]})
    labs = [f"names:dashed={dashed}", f"names:remote={min(len(case['remote']), 3)}"] + [f"names:has-{k}" for k in kinds]
    return labs, dashed


def run_case(ctx: Ctx, case: dict) -> None:
    labs, nt = labels(case)
    ctx.case(case, labels=labs, nontrivial=nt)
    oracle(ctx, case)


def oracle(ctx: Ctx, case: dict) -> None:
    {"single": single_oracle, "array": array_oracle, "names": names_oracle, "files": files_oracle,
     "grouping": grouping_oracle}[case["part"]](ctx, case)


def check(ctx: Ctx) -> None:
    ctx.given(single_cases, lambda c: run_case(ctx, c), ctx.n(600, 48000))
    ctx.given(array_cases(), lambda c: run_case(ctx, c), ctx.n(300, 24000))
    ctx.given(name_cases(), lambda c: run_case(ctx, c), ctx.n(300, 24000))
    ctx.given(file_cases(), lambda c: run_case(ctx, c), ctx.n(150, 12000))
    ctx.given(grouping_cases(), lambda c: run_case(ctx, c), ctx.n(200, 12000))


def replay(ctx: Ctx, case: dict) -> None:
    oracle(ctx, case)
