"""C07 — results and the recorded call graph do not depend on completion order or limits."""
from __future__ import annotations

from hypothesis import strategies as st

from vf.core import Ctx, Violation
from vf.lab import ctl as C
from vf.lab import dbx
from vf.lab import progs as P
from vf.lab import schedrun

ID = "C07"
LEVEL = "exploration"
RULE = (
    "Generated programs without uncaught errors (errors only under catch with a single failing source "
    "or under catch_all, where the documented outcome is schedule-independent), including "
    "handle-passing programs (one handle forked to sibling jobs whose other arguments become ready at "
    "different times, chained, peeked); each program is executed under k generated completion "
    "schedules (coarse and fine) x m resource-limit configurations from unlimited to fully serial, "
    "each on a fresh backend. Metamorphic oracle: identical result (handles compared by hash), "
    "identical set of CallNode.call_hash, identical set of (call_hash, position, key, value_hash) "
    "arguments and identical set of Handle hashes across all runs of one program; job ids, timestamps "
    "and which duplicate was marked cached are excluded as the statement allows. Non-trivial = two runs "
    "that differ in the completion order of some sibling pair, or limit configurations under which "
    "some job actually waited."
)
ASSUMPTIONS = ["tasks are deterministic functions of their arguments"]
MANIFEST = {"technique": "metamorphic testing across generated schedules and limit configurations (Hypothesis, controlled executor)"}

NOERR = ["lit", "var", "task", "task", "task", "ptask", "op", "list", "tuple", "dict", "cond", "seq", "map", "map2",
         "flat_map", "apply", "let", "getitem", "fork_join", "tags", "nt", "dc", "getattr", "callv", "nout", "set"]


@st.composite
def handle_programs(draw):
    def slow(i):
        # an argument that becomes ready later: depth-i chain of jobs
        e = ["lit", ["int", i]]
        for _ in range(draw(st.integers(0, 2))):
            e = ["task", e, {}, {}]
        return e

    h = ["handle", draw(st.sampled_from(["h", "g"]))]
    shape = draw(st.sampled_from(["siblings", "chain", "mixed", "peek"]))
    n = draw(st.integers(2, 4))
    lim = draw(st.booleans())
    if shape == "siblings":
        return ["list", [["use", h, slow(i)] for i in range(n)]]
    if shape == "chain":
        cur = h
        for i in range(n):
            cur = ["use", cur, slow(i)]
        return ["list", [cur]]
    if shape == "peek":
        return ["list", [["peek", ["use", h, slow(0)]], ["use", h, slow(1)], ["peek", h]]]
    first = ["use", h, slow(0)]
    return ["let", "s", first, ["list", [["use", ["var", "s"], slow(1)], ["use", ["var", "s"], slow(2)], ["use", h, slow(3)]]]]


@st.composite
def forwarded_handle_programs(draw):
    """A handle that first enters a task (and is thereby forked under a key of its own) and is THEN
    passed on to sibling calls: its forks are named after its key, not after sibling call order, so
    nothing about it may depend on timing (unlike a fresh handle used by siblings in the task that
    created it, which is the open finding handle-fork-order)."""
    def slow(i):
        e = ["lit", ["int", i]]
        for _ in range(draw(st.integers(0, 2))):
            e = ["task", e, {}, {}]
        return e

    h = ["handle", draw(st.sampled_from(["h", "g"]))]
    n = draw(st.integers(2, 4))
    # (no chains here: a handle RETURNED by a task has lost its key again, so use(use(a, ..), ..)
    # is back in the open finding's territory as soon as a job is re-queued)
    shape = draw(st.sampled_from(["siblings", "siblings", "two-levels"]))
    body = ["list", [["use", ["var", "a"], slow(i)] for i in range(n)]]
    # limits only on the calls that receive the forwarded handle: the job that receives the FRESH
    # handle must not be one that can be re-queued for limits (that is the open finding)
    body = add_limits(body, True)
    stage = ["task", body, {"a": h}, {}]
    if shape == "two-levels":
        stage = ["task", ["task", body, {"a": ["var", "a"]}, {}], {"a": h}, {}]
    return ["list", [stage]]


@st.composite
def single_source_error_programs(draw):
    ek = draw(st.sampled_from(P.ERRK))
    leaf = ["throw", ek, "e1"]
    ok = lambda v: ["task", ["lit", ["int", v]], {}, {}]  # noqa: E731
    shape = draw(st.sampled_from(["catch", "catch_all", "catch_all_recover"]))
    if shape == "catch":
        return ["list", [["catch", ["task", leaf, {}, {}], ["Exception"], ["apply", "err_info", [["var", "x"]]], {}], ok(1), ok(2)]]
    items = [ok(1), ["task", leaf, {}, {}], ok(2), ["throw", "KeyError", "k"]]
    if shape == "catch_all":
        return ["catch", ["catch_all", items, [], None], ["Exception"], ["lit", ["int", -1]], {}]
    return ["catch_all", items, ["Exception"], ["apply", "count_errors", [["var", "x"]]]]


@st.composite
def late_children_programs(draw):
    """Children of one job that are created at different times (after a seq element / a cond test
    finished), so their creation order depends on the completion order of unrelated siblings."""
    n = [0]

    def t():
        n[0] += 1
        e = ["lit", ["int", n[0]]]
        for _ in range(draw(st.integers(1, 2))):
            e = ["task", e, {}, {}]
        return e

    forms = []
    for _ in range(draw(st.integers(2, 3))):
        c = draw(st.integers(0, 2))
        if c == 0:
            forms.append(["seq", [t(), t()]])
        elif c == 1:
            forms.append(["cond", [t(), t(), t()]])
        else:
            forms.append(["catch", ["task", ["throw", "ValueError", f"e{n[0]}"], {}, {}], ["ValueError"], t(), {}])
    return ["task", ["list", forms], {}, {}]


@st.composite
def duplicate_programs(draw):
    """The same call (of a task that itself makes child calls) reached from different parents and
    expressions, so that in some schedules the duplicate finds its twin still pending and in others
    already recorded."""
    v = draw(st.integers(0, 2))
    inner = ["list", [["task", ["lit", ["int", v]], {}, {}], ["task", ["lit", ["int", v + 1]], {}, {}]]]
    if draw(st.booleans()):
        inner = ["op", "add", ["task", ["lit", ["int", v]], {}, {}], ["task", ["lit", ["int", v + 5]], {}, {}]]
    J = ["task", inner, {}, {}]
    slow = ["task", ["task", ["lit", ["int", 9]], {}, {}], {}, {}]
    forms = [J, ["task", ["list", [J]], {}, {}], ["task", ["var", "a"], {"a": J}, {}],
             ["list", [slow, J]], ["task", ["list", [["var", "a"], J]], {"a": slow}, {}]]
    n = draw(st.integers(2, 4))
    picks = [forms[draw(st.integers(0, len(forms) - 1))] for _ in range(n)]
    return ["list", picks + [["task", ["list", [["lit", ["int", 77]], ["var", "a"]]], {"a": J}, {}]]]


def add_limits(ast, every):
    """Give every task node a `limits: [r1]` option (to let limit configurations bite)."""
    if isinstance(ast, list):
        if ast and ast[0] == "use":
            return ["use", add_limits(ast[1], every), add_limits(ast[2], every), {"limits": ["r1"]}]
        if ast and ast[0] in ("task", "ptask") and isinstance(ast[3], dict):
            o = dict(ast[3])
            o["limits"] = ["r1"]
            return [ast[0], add_limits(ast[1], every), {k: add_limits(v, every) for k, v in ast[2].items()}, o]
        return [add_limits(a, every) for a in ast]
    if isinstance(ast, dict):
        return {k: add_limits(v, every) for k, v in ast.items()}
    return ast


@st.composite
def cases(draw):
    fam = draw(st.sampled_from(["generic", "generic", "handle", "handle", "handle-fwd", "handle-fwd", "single-error", "late", "late", "dups", "dups"]))
    if fam == "generic":
        prog = draw(P.programs(max_depth=3, modes=("node", "dnode"), errors=False, allow=NOERR))
    elif fam == "handle":
        prog = draw(handle_programs())
    elif fam == "handle-fwd":
        prog = draw(forwarded_handle_programs())
    elif fam == "late":
        prog = draw(late_children_programs())
    elif fam == "dups":
        prog = draw(duplicate_programs())
    else:
        prog = draw(single_source_error_programs())
    if fam != "handle-fwd":
        prog = add_limits(prog, True)
    k = draw(st.integers(2, 3))
    scheds = [draw(st.lists(st.integers(0, 5), max_size=30)) for _ in range(k)]
    return {"family": fam, "prog": prog, "schedules": scheds, "limits": [None, 1, draw(st.sampled_from([2, 3]))],
            "fine": draw(st.booleans())}


def norm_value(v):
    from redun import Handle

    if isinstance(v, Handle):
        return ("handle", v.get_hash())
    if isinstance(v, (list, tuple)):
        return (type(v).__name__, [norm_value(i) for i in v])
    if isinstance(v, dict):
        return ("dict", sorted((repr(k), norm_value(x)) for k, x in v.items()))
    if isinstance(v, (set, frozenset)):
        return ("set", sorted(repr(norm_value(i)) for i in v))
    if isinstance(v, Exception):
        return ("exc", type(v).__name__, str(v))
    return (type(v).__name__, repr(v))


def dump(backend):
    from sqlalchemy import text

    with backend.engine.connect() as conn:
        calls = sorted(r[0] for r in conn.execute(text("select call_hash from call_node")))
        args = sorted(list(map(str, r)) for r in conn.execute(text(
            "select call_hash, arg_position, arg_key, value_hash from argument")))
        handles = sorted(r[0] for r in conn.execute(text("select hash from handle")))
    return {"calls": calls, "args": args, "handles": handles}


def one_run(case, decisions, limit):
    backend = dbx.fresh_backend()
    try:
        limits = {"r1": limit} if limit is not None else {"r1": 1000}
        r = schedrun.run_program(case["prog"], decisions=decisions, limits=limits, fine=case["fine"], backend=backend)
        d = dump(backend)
    finally:
        dbx.discard_backend(backend)
    res = ("ok", norm_value(r.payload)) if r.kind == "ok" else (r.kind, f"{type(r.payload).__name__}: {r.payload}")
    return r, res, d


def oracle(ctx: Ctx, case):
    runs = []
    for lim in case["limits"]:
        for dec in case["schedules"]:
            r, res, d = one_run(case, dec, lim)
            if r.kind in ("quiescent", "budget"):
                raise Violation("stuck", f"did not terminate under limit {lim}: {r.payload}", case)
            runs.append((lim, dec, r, res, d))
    base = runs[0]
    if all(res[0] == "err" for _, _, _, res, _ in runs):
        # the program fails with an uncaught error (ill-typed generated operands): which jobs were
        # already recorded when the failure surfaced legitimately depends on timing; the property
        # speaks of executions that return a value. (A run that fails under one schedule and
        # returns under another is still compared, and reported.)
        return {"orders": 0, "waited": 0, "uncaught": True}
    is_handle = case["family"] == "handle"
    info = {"orders": len({tuple(r.ctl.completion_order) for _, _, r, _, _ in runs}),
            "waited": sum(1 for _, _, r, _, _ in runs if r.waited)}
    for lim, dec, r, res, d in runs[1:]:
        diffs = []
        if res != base[3]:
            diffs.append("result")
        for part in ("calls", "args", "handles"):
            if d[part] != base[4][part]:
                diffs.append(part)
        if diffs:
            both_unwaited = not r.waited and not base[2].waited
            if is_handle:
                key = "handle-fork-order:" + ("sibling-order" if both_unwaited else "requeued")
            else:
                key = "differs:" + "+".join(diffs)
            only = [x for x in d["calls"] if x not in base[4]["calls"]][:2]
            raise Violation(key, f"{'+'.join(diffs)} differ between limit={base[0]} schedule={base[1]} and limit={lim} "
                            f"schedule={dec}: result {base[3]!r:.200} vs {res!r:.200}; call hashes only in second: {only}", case)
    return info


def run_case(ctx: Ctx, case) -> None:
    info = {"orders": 0, "waited": 0}
    try:
        info = oracle(ctx, case)
    finally:
        ctx.case(case, labels=[f"family:{case['family']}", f"fine:{case['fine']}", f"orders:{min(info['orders'], 4)}",
                               "some-job-waited" if info["waited"] else "no-waiting"],
                 nontrivial=info["orders"] >= 2 or info["waited"] >= 1)


def check(ctx: Ctx) -> None:
    C.quiet_logs()
    ctx.given(cases(), lambda c: run_case(ctx, c), ctx.n(50, 1600))


def replay(ctx: Ctx, case) -> None:
    C.quiet_logs()
    oracle(ctx, case)
