"""C15 — cache keys (eval hashes) separate every distinct call and only those."""
from __future__ import annotations

import hashlib

from hypothesis import strategies as st

from vf.core import Ctx, HarnessError, Violation
from vf.lab import ctl as C
from vf.lab import dbx
from vf.lab import values as V

ID = "C15"
LEVEL = "exploration"
RULE = (
    "Hypothesis-generated task signatures (positional, defaulted, *variadic, keyword-only, **kwargs, a "
    "JobInfo placeholder parameter), config_args subsets, and call assignments with L1 values; the "
    "task is built by exec of the generated def, registered, and run through the real Scheduler with "
    "a harness executor that records the eval_hash of each submission (so defaults merging and "
    "hash_args_eval are the real path). Metamorphic relations on the recorded key: changing one "
    "non-config argument (positional / keyword / variadic element / extra kwarg / defaulted param "
    "given a non-default value) to a value with a different hash, or the task source, changes it; "
    "keyword reorder, config-argument values, JobInfo placeholder vs populated, and passing a "
    "defaulted parameter by keyword with its default leave it unchanged. Type tags: bencode is "
    "wrapped while 20 hashing entry points are driven; each record kind's pre-image must be a list "
    "led by a str tag, distinct across kinds. Non-trivial = signature with >=3 parameter kinds and a "
    "config argument."
)
ASSUMPTIONS = [
    "argument values 'differ' when redun's value hash differs (C16 covers the value hash)",
    "JobInfo parameters are never config args at the same time",
]
MANIFEST = {"technique": "metamorphic relations on observed cache keys (Hypothesis + controlled executor)"}

val = V.value_specs(max_leaves=4)

_SEQ = [0]


@st.composite
def cases(draw):
    npos = draw(st.integers(0, 2))
    ndef = draw(st.integers(0, 2))
    var = draw(st.booleans())
    nkw = draw(st.integers(0, 2))
    varkw = draw(st.booleans())
    jobinfo = draw(st.sampled_from(["none", "none", "kwonly", "default"]))
    params = []   # (name, kind, default)
    nonly = draw(st.integers(0, 2)) if draw(st.booleans()) else 0
    for i in range(nonly):
        params.append([f"o{i}", "ponly", None])        # positional-only (before the '/' marker)
    for i in range(npos):
        params.append([f"p{i}", "pos", None])
    for i in range(ndef):
        params.append([f"d{i}", "def", draw(st.integers(0, 3))])
    if jobinfo == "default":
        params.append(["info", "info", None])
    if var:
        params.append(["rest", "var", None])
    for i in range(nkw):
        params.append([f"k{i}", "kwonly", draw(st.one_of(st.none(), st.integers(0, 3)))])
    if jobinfo == "kwonly":
        params.append(["info", "infokw", None])
    if varkw:
        params.append(["kw", "varkw", None])
    named = [p[0] for p in params if p[1] in ("ponly", "pos", "def", "kwonly", "var")]
    config = draw(st.lists(st.sampled_from(named), unique=True, max_size=2)) if named else []
    kwonly_names = [p[0] for p in params if p[1] == "kwonly"]
    if var and kwonly_names and draw(st.booleans()):
        config = sorted(set(config) | {kwonly_names[0]})
    if var and draw(st.integers(0, 2)) == 0:
        config = sorted(set(config) | {"rest"})          # the variadic parameter as a config argument
    # call assignment
    call = {"pos": [], "kw": {}, "extra_pos": [], "extra_kw": {}}
    by_kw_allowed = True
    for name, kind, default in params:
        if kind == "ponly":
            call["pos"].append(draw(val))
        elif kind == "pos":
            how = draw(st.sampled_from(["pos", "kw"])) if by_kw_allowed else "kw"
            if how == "pos":
                call["pos"].append(draw(val))
            else:
                by_kw_allowed = False
                call["kw"][name] = draw(val)
        elif kind == "def":
            how = draw(st.sampled_from(["omit", "pos", "kw"]))
            if how == "pos" and by_kw_allowed:
                call["pos"].append(draw(val))
            elif how == "kw":
                by_kw_allowed = False
                call["kw"][name] = draw(val)
            else:
                by_kw_allowed = False
        elif kind == "info":
            by_kw_allowed = False
        elif kind == "var":
            if by_kw_allowed:
                call["extra_pos"] = draw(st.lists(val, min_size=1 if "rest" in config else 0, max_size=4))
        elif kind == "kwonly":
            if default is None or draw(st.booleans()):
                call["kw"][name] = draw(val)
        elif kind == "varkw":
            call["extra_kw"] = draw(st.dictionaries(st.sampled_from(["x", "y", "z"]), val, max_size=2))
    return {"params": params, "config": config, "call": call,
            "new": draw(val), "pick": draw(st.integers(0, 20)), "perm": draw(st.integers(0, 5))}


def make_task(case, variant=0):
    from redun import Task
    from redun.task import get_task_registry

    parts = []
    seen_star = False
    last_only = max([i for i, p in enumerate(case["params"]) if p[1] == "ponly"], default=-1)
    for idx_, (name, kind, default) in enumerate(case["params"]):
        if kind == "ponly":
            parts.append(name)
            if idx_ == last_only:
                parts.append("/")
        elif kind == "pos":
            parts.append(name)
        elif kind == "def":
            parts.append(f"{name}={default!r}")
        elif kind == "info":
            parts.append(f"{name}=JobInfo()")
        elif kind == "var":
            parts.append(f"*{name}")
            seen_star = True
        elif kind in ("kwonly", "infokw"):
            if not seen_star:
                parts.append("*")
                seen_star = True
            if kind == "infokw":
                parts.append(f"{name}=JobInfo()")
            else:
                parts.append(name if default is None else f"{name}={default!r}")
        elif kind == "varkw":
            parts.append(f"**{name}")
    src = f"def f({', '.join(parts)}):\n    return {variant}\n"
    ns: dict = {}
    from redun.scheduler import JobInfo

    exec(src, {"JobInfo": JobInfo}, ns)  # noqa: S102 - generated, harness-owned source
    base = {"config_args": list(case["config"])} if case["config"] else {}
    t = Task(ns["f"], name="f", namespace="vf_c15", task_options_base=base, source=src)
    get_task_registry().add(t)
    return t


def build_call(call):
    pos = [V.build(s) for s in call["pos"]] + [V.build(s) for s in call["extra_pos"]]
    kw = {k: V.build(s) for k, s in call["kw"].items()}
    kw.update({k: V.build(s) for k, s in call["extra_kw"].items()})
    return pos, kw


_shared: dict = {}


def observe_key(task, pos, kw):
    """Run task(*pos, **kw) through the Scheduler (cache off, so the job is always submitted);
    return the eval_hash of the submitted job."""
    if "sched" not in _shared:
        _shared["sched"] = C.new_scheduler()
    sched = _shared["sched"]
    ctl = C.Ctl()
    ctl.attach(sched)
    sched.run(task(*pos, **kw), cache=False)
    subs = [s for s in ctl.submissions if s.task_name == "vf_c15.f"]
    if len(subs) != 1:
        raise HarnessError(f"expected exactly one submission of f, got {len(subs)}")
    return subs[0].eval_hash


def vhash(x):
    from redun.value import get_type_registry

    return get_type_registry().get_hash(x)


def variants(case):
    """Yields (label, expect_same, pos, kw, task_variant)."""
    from redun.scheduler import JobInfo

    call = case["call"]
    cfg = set(case["config"])
    pos0, kw0 = build_call(call)
    new = V.build(case["new"])
    params = case["params"]
    pos_names = [p[0] for p in params if p[1] in ("ponly", "pos", "def")]
    has_var = any(p[1] == "var" for p in params)
    npos_named = len(call["pos"])
    out = []
    # positional arguments
    for i in range(len(pos0)):
        name = pos_names[i] if i < npos_named else "rest"
        is_cfg = name in cfg
        if vhash(pos0[i]) != vhash(new):
            p2 = list(pos0)
            p2[i] = new
            out.append((f"{'config' if is_cfg else 'change'}:{'pos' if i < npos_named else 'variadic'}", is_cfg, p2, kw0, 0))
    for k in kw0:
        is_cfg = k in cfg
        if vhash(kw0[k]) != vhash(new):
            k2 = dict(kw0)
            k2[k] = new
            kind = "extra_kw" if k in call["extra_kw"] else "kw"
            out.append((f"{'config' if is_cfg else 'change'}:{kind}", is_cfg, pos0, k2, 0))
    # keyword order
    if len(kw0) >= 2:
        items = list(kw0.items())
        r = case["perm"] % len(items)
        items = items[r:] + items[:r]
        if case["perm"] % 2 == 0:
            items.reverse()
        out.append(("same:kw_order", True, pos0, dict(items), 0))
    # defaulted parameter passed by keyword with its default / with another value
    passed = set(call["kw"]) | set(pos_names[:npos_named])
    for name, kind, default in params:
        if kind in ("def", "kwonly") and default is not None and name not in passed:
            # passing by keyword is always legal for these
            k2 = dict(kw0)
            k2[name] = default
            out.append(("same:default_by_kw", True, pos0, k2, 0))
            if vhash(default) != vhash(new):
                k3 = dict(kw0)
                k3[name] = new
                out.append((f"{'config' if name in cfg else 'change'}:defaulted", name in cfg, pos0, k3, 0))
    # JobInfo placeholder vs populated
    if any(p[1] in ("info", "infokw") for p in params):
        k2 = dict(kw0)
        k2["info"] = JobInfo(execution_id="e", job_id="j", eval_hash="x", args_hash="y")
        out.append(("same:jobinfo", True, pos0, k2, 0))
    # ... and passed POSITIONALLY (a task forwarding its own job_info), when the placeholder
    # parameter is the next free positional slot
    poscap = [p for p in params if p[1] in ("ponly", "pos", "def", "info")]
    for idx_, (name, kind, _d) in enumerate(poscap):
        if kind == "info" and idx_ == len(pos0) and not call["extra_pos"] and name not in kw0 \
                and all(p[1] != "info" for p in poscap[:idx_]):
            out.append(("same:jobinfo-positional", True, list(pos0) + [JobInfo(execution_id="e2", job_id="j2", eval_hash="x", args_hash="y")], kw0, 0))
            out.append(("same:jobinfo-positional-placeholder", True, list(pos0) + [JobInfo()], kw0, 0))
    # task hash
    out.append(("change:task", False, pos0, kw0, 1))
    return out


def oracle(ctx: Ctx, case) -> list:
    t0 = make_task(case, 0)
    pos0, kw0 = build_call(case["call"])
    with ctx.no_raise("scheduler run", case):
        k0 = observe_key(t0, pos0, kw0)
    labels = []
    vs = variants(case)
    if vs:
        # run a bounded number of variants per case, rotating by pick
        start = case["pick"] % len(vs)
        chosen = [vs[(start + i) % len(vs)] for i in range(min(8, len(vs)))]
        # the task-hash variant must come last (it re-registers f with another body)
        chosen.sort(key=lambda v: v[4])
        for label, same, pos, kw, tv in chosen:
            t = make_task(case, tv) if tv else t0
            with ctx.no_raise("scheduler run", case):
                k = observe_key(t, pos, kw)
            labels.append(label)
            if same and k != k0:
                raise Violation(f"key-changed:{label}", f"{label}: key changed although the call is the same "
                                f"({pos0},{kw0}) vs ({pos},{kw}); config_args={case['config']}", case)
            if not same and k == k0:
                raise Violation(f"key-collision:{label}", f"{label}: calls ({pos0},{kw0}) and ({pos},{kw}) of "
                                f"f{tuple(p[0] for p in case['params'])} share eval hash; config_args={case['config']}", case)
    return labels


def run_case(ctx: Ctx, case) -> None:
    kinds = {p[1] for p in case["params"]}
    labels = []
    try:
        labels = oracle(ctx, case)
    finally:
        ctx.case(case, labels=[f"param:{k}" for k in sorted(kinds)] + labels + (["config"] if case["config"] else []),
                 nontrivial=len(kinds) >= 3 and bool(case["config"]))


# ---------------------------------------------------------------- type tags
def tag_check(ctx: Ctx) -> None:
    import os

    import redun.hashing as H
    from redun import File, Handle, Task
    from redun.expression import SchedulerExpression, SimpleExpression, TaskExpression, ValueExpression
    from redun.file import ContentFile, Dir, FileSet, IDir, IFile, IFileSet, StagingFile
    from redun.scheduler import ErrorValue, Thread
    from redun.value import get_type_registry

    reg = get_type_registry()
    pre: dict[str, object] = {}
    orig = H.bencode

    def rec(struct, *a, **k):
        out = orig(struct, *a, **k)
        if isinstance(out, bytes):
            pre[hashlib.sha512(out).hexdigest()[:40]] = struct
        return out

    d = ctx.fresh_dir("tags")
    fp = os.path.join(d, "f.txt")
    with open(fp, "w") as f:
        f.write("x")

    def _f(a):
        return a

    class H1(Handle):
        def __init__(self, name, x=1):
            self.x = x

    drivers = {
        "arguments": lambda: H.hash_arguments(reg, [1, "a"], {"k": 2}),
        "eval": lambda: H.hash_eval(reg, "t" * 40, [1], {})[0],
        "call_node": lambda: H.hash_call_node("t" * 40, "a" * 40, "r" * 40, ["c" * 40]),
        "tag": lambda: H.hash_tag("e" * 40, "key", [1, "v"], []),
        "task": lambda: Task(_f, name="g", namespace="vf_c15", source="def g(a): return a").hash,
        "task_versioned": lambda: Task(_f, name="g", namespace="vf_c15", version="1", source="x").hash,
        "partial_task": lambda: Task(_f, name="g", namespace="vf_c15", source="def g(a): return a").partial(1).hash,
        "task_expr": lambda: TaskExpression("n.f", (1,), {}).get_hash(),
        "task_expr_export": lambda: TaskExpression("n.f", (1,), {}, export_options={"memory"}).get_hash(),
        "sched_expr": lambda: SchedulerExpression("n.f", (1,), {}).get_hash(),
        "sched_expr_opts": lambda: SchedulerExpression("n.f", (1,), {}, task_options={"cache_scope": "NONE"}).get_hash(),
        "simple_expr": lambda: SimpleExpression("add", (1, 2)).get_hash(),
        "value_expr": lambda: ValueExpression(5).get_hash(),
        "file": lambda: File(fp).hash,
        "file_missing": lambda: File(fp + ".missing").hash,
        "dir": lambda: Dir(d).hash,
        "fileset": lambda: FileSet(os.path.join(d, "*.txt")).hash,
        "content_file": lambda: ContentFile(fp).hash,
        "ifile": lambda: IFile(fp).hash,
        "idir": lambda: IDir(d).hash,
        "ifileset": lambda: IFileSet(os.path.join(d, "*.txt")).hash,
        "staging_file": lambda: StagingFile(fp + ".local", fp).get_hash(),
        "handle_init": lambda: H1("h", 2).get_hash(),
        "thread": lambda: Thread("pid", "e" * 40, None).get_hash(),
        "error_value": lambda: ErrorValue(ValueError("x")).get_hash(),
    }
    # same record kind reached through several drivers
    same_kind = {"task_versioned": "task", "task_expr_export": "task_expr", "sched_expr_opts": "sched_expr",
                 "file_missing": "file"}
    tags: dict[str, set] = {}
    H.bencode = rec
    try:
        for name, drv in drivers.items():
            pre.clear()
            with ctx.no_raise(f"hash entry point {name}", {"tags": name}):
                h = drv()
            struct = pre.get(h)
            case = {"tags": name}
            ctx.require(struct is not None, f"tag:no-preimage:{name}",
                        f"{name}: returned hash {h!r} is not hash_struct of any bencoded pre-image", case)
            ctx.require(isinstance(struct, (list, tuple)) and len(struct) > 0 and isinstance(struct[0], str),
                        f"tag:untagged:{name}", f"{name}: pre-image {struct!r} is not a list led by a str tag", case)
            tags.setdefault(same_kind.get(name, name), set()).add(struct[0])
            ctx.case({"tags": name, "tag": struct[0]}, labels=["tagcheck"], nontrivial=True)
    finally:
        H.bencode = orig
    # the Argument record hash needs a recorded call: run a tiny workflow and read it back
    kinds = sorted(tags)
    for i, a in enumerate(kinds):
        for b in kinds[i + 1:]:
            common = tags[a] & tags[b]
            ctx.require(not common, f"tag:shared:{a}+{b}",
                        f"record kinds {a} and {b} share leading type tag(s) {sorted(common)}", {"tags": [a, b]})


def check(ctx: Ctx) -> None:
    tag_check(ctx)
    ctx.given(cases(), lambda c: run_case(ctx, c), ctx.n(300, 16000))


def replay(ctx: Ctx, case) -> None:
    if isinstance(case, dict) and "tags" in case:
        tag_check(ctx)
    else:
        oracle(ctx, case)
