"""C06 — each distinct call runs at most once per execution (CSE), for any completion order."""
from __future__ import annotations

import collections

from hypothesis import strategies as st

from vf.core import Ctx, Violation
from vf.lab import ctl as C
from vf.lab import dbx
from vf.lab import progs as P

ID = "C06"
LEVEL = "exploration"
RULE = (
    "Generated programs rich in repeated calls: the same task+arguments reached from sibling "
    "positions, from different parent jobs, before/after a seq barrier (twin already finished), "
    "while the first still waits for limits or is mid-way through its children, failing twins, "
    "calls differing only in options (limits/executor), a let-shared expression used twice, and "
    "opt-outs (cache_scope=NONE, prov=False; also an opted-out twin that finishes while the original "
    "is in flight, followed by a third equivalent call). Schedules: exhaustive DFS over the harness-owned "
    "executor's decision points for small programs (fine interleavings, capped), Hypothesis-drawn "
    "decision lists otherwise. Oracle per execution: submissions per (task hash, args hash, context "
    "hash) <= 1 unless the call opted out; at most one Job is created per (parent job, expression "
    "hash); the final value/error is in the reference interpreter's outcome set (so every duplicate "
    "received its twin's result or error). Non-trivial = a duplicate whose twin was pending, waiting "
    "for limits, or already finalized when the duplicate was hashed (all three classes counted)."
)
ASSUMPTIONS = ["opt-outs are cache_scope=NONE (also what prov=False forces) — those calls may run more than once"]
MANIFEST = {"technique": "schedule enumeration (bounded DFS) + Hypothesis schedules over generated programs, controlled executor"}


@st.composite
def dup_programs(draw):
    def base():
        c = draw(st.integers(0, 5))
        v = draw(st.integers(0, 2))
        if c <= 1:
            return ["lit", ["int", v]]
        if c == 2:
            return ["op", "add", ["task", ["lit", ["int", v]], {}, {}], ["lit", ["int", 1]]]
        if c == 3:
            return ["list", [["task", ["lit", ["int", v]], {}, {}], ["task", ["lit", ["int", v]], {}, {}]]]
        if c == 4:
            return ["throw", "ValueError", f"e{v}"]
        return ["task", ["task", ["lit", ["int", v]], {}, {}], {}, {}]

    def variant(job):
        """The same call with different (hash-neutral) options."""
        o = dict(job[3])
        c = draw(st.integers(0, 6))
        if c == 0:
            o["limits"] = ["r1"]
        elif c == 1:
            o["limits"] = {"r1": 1, "r2": 1}
        elif c == 2:
            o["cache_scope"] = "NONE"
        elif c == 3:
            o["prov"] = False
        elif c == 4:
            o["cache"] = False          # cache_scope=CSE: still deduplicated within the execution
        return ["task", job[1], job[2], o]

    pool = []
    for _ in range(draw(st.integers(1, 3))):
        binds = {}
        if draw(st.booleans()):
            binds = {"a": ["lit", ["int", draw(st.integers(0, 1))]]}
        body = base()
        if binds and draw(st.booleans()):
            body = ["op", "add", ["var", "a"], ["task", body, {}, {}]]
        pool.append(["task", body, binds, {"limits": ["r1"]} if draw(st.integers(0, 3)) == 0 else {}])

    def pick():
        j = pool[draw(st.integers(0, len(pool) - 1))]
        return variant(j) if draw(st.booleans()) else j

    def wrap(j):
        c = draw(st.integers(0, 5))
        if c == 0:
            return ["task", j, {}, {}]                       # reached from a different parent job
        if c == 1:
            return ["catch", j, ["Exception"], ["lit", ["int", -1]], {}]
        if c == 2:
            return ["op", "add", j, ["lit", ["int", 0]]]
        return j

    shape = draw(st.sampled_from(["list", "seq", "mixed", "let", "nested", "optout-window", "failed-twin"]))
    n = draw(st.integers(2, 4))
    items = [wrap(pick()) for _ in range(n)]
    if shape == "list":
        prog = ["list", items]
    elif shape == "seq":
        prog = ["seq", items]
    elif shape == "mixed":
        prog = ["list", [["seq", items[:2]], ["list", items[1:]]]]
    elif shape == "optout-window":
        # X is in flight; an opted-out twin (prov=False / cache_scope=NONE) runs and finishes; only
        # then a third equivalent call is created, from another parent job, while X may still run
        x = pool[0]
        opt = ["task", x[1], x[2], {**x[3], **draw(st.sampled_from([{"prov": False}, {"cache_scope": "NONE"}]))}]
        third = ["task", x[1], x[2], {**x[3], **draw(st.sampled_from([{}, {}, {"cache": False}]))}]
        prog = ["list", [x, ["seq", [opt, ["task", third, {}, {}]]]] + items[:1]]
    elif shape == "failed-twin":
        # a failing call is handled; after it has been finalized an equivalent call is made from
        # another parent job while the execution is still alive: it must get the twin's error
        v = draw(st.integers(0, 2))
        f = ["task", draw(st.sampled_from([["throw", "ValueError", f"e{v}"], ["op", "div", ["lit", ["int", v]], ["lit", ["int", 0]]],
                                           ["task", ["throw", "KeyError", f"e{v}"], {}, {}]])), {}, {}]
        prog = ["list", [["catch", f, ["Exception"], ["lit", ["int", -1]], {}],
                         ["seq", [["task", ["lit", ["int", 5]], {}, {}], ["catch", ["task", f, {}, {}], ["Exception"], ["lit", ["int", -2]], {}]]]]
                + items[:1]]
    elif shape == "let":
        prog = ["let", "s", pick(), ["list", [["var", "s"], ["var", "s"], items[0]]]]
    else:
        prog = ["task", ["list", items[:2]], {"a": items[-1]}, {}]
    if draw(st.integers(0, 2)) == 0:
        prog = ["catch_all", [prog, wrap(pick())], [], None]
    if draw(st.integers(0, 2)) == 0:
        # a blocker holding r1 first, so that limited duplicates arrive while their twin waits
        lim = lambda j: ["task", j[1], j[2], {**j[3], "limits": ["r1"]}] if j[0] == "task" else j  # noqa: E731
        j = pool[0]
        prog = ["list", [["task", ["lit", ["int", 99]], {}, {"limits": ["r1"]}], lim(j), lim(j), prog]]
    return prog


@st.composite
def cases(draw):
    return {"prog": draw(dup_programs()), "decisions": draw(st.lists(st.integers(0, 4), max_size=40)),
            "fine": draw(st.booleans()), "limits": {"r1": draw(st.integers(1, 2))}}


class Probe:
    """Instruments one scheduler run: job creations per (parent, expression), dedup classes."""

    def __init__(self):
        self.jobs_per_expr = collections.Counter()
        self.classes = collections.Counter()
        self.optout_keys = set()

    def install(self, sched):
        import redun.scheduler as S

        probe = self
        self._orig_job = S.Job

        class CountingJob(S.Job):
            def __init__(self, task, expr, *a, parent_job=None, **k):
                super().__init__(task, expr, *a, parent_job=parent_job, **k)
                probe.jobs_per_expr[(id(parent_job), expr.get_hash())] += 1

        S.Job = CountingJob
        orig_check = sched._check_pending_job

        def check(job):
            key = (job.eval_hash, job.context_hash)
            waiting = any(j.eval_hash == job.eval_hash and j is not job for j, _ in sched._jobs_pending_limits)
            res = orig_check(job)
            if res is not None:
                probe.classes["twin-pending"] += 1
            elif waiting:
                probe.classes["twin-waiting-for-limits"] += 1
            return res

        sched._check_pending_job = check
        orig_cache = sched._get_cache

        def get_cache(job):
            result, cached, call_hash = orig_cache(job)
            if cached:
                probe.classes["twin-finalized"] += 1
            return result, cached, call_hash

        sched._get_cache = get_cache

    def uninstall(self):
        import redun.scheduler as S

        S.Job = self._orig_job


def execute(case, decisions=None, exact=False):
    import vf_tasks
    from redun.task import CacheScope

    sched = C.new_scheduler(limits=case["limits"])
    ctl = C.Ctl(case["decisions"] if decisions is None else decisions, fine=case["fine"], exact=exact, step_budget=6000)
    ctl.attach(sched)
    probe = Probe()
    probe.install(sched)
    try:
        try:
            v = sched.run(vf_tasks.node(P.fresh(case["prog"]), {}))
            kind, payload = "ok", v
        except C.Quiescent as q:
            kind, payload = "quiescent", q
        except C.StepBudget as b:
            kind, payload = "budget", b
        except Exception as e:  # noqa: BLE001 - program's own failure
            kind, payload = "err", e
    finally:
        probe.uninstall()
        dbx.discard_backend(sched.backend)
    return kind, payload, ctl, probe


def judge(case, kind, payload, ctl, probe, exp) -> None:
    from redun.task import CacheScope

    if kind == "quiescent":
        raise Violation("stuck", f"execution stuck: {payload}", case)
    if kind == "budget":
        from vf.core import HarnessError

        raise HarnessError("step budget exceeded")
    # submissions that did NOT opt out, per call: at most one (an opted-out twin may run besides)
    per_key = collections.Counter()
    optout = collections.Counter()
    for s in ctl.submissions:
        scope = s.options.get("cache_scope", CacheScope.BACKEND)
        if CacheScope(scope) == CacheScope.NONE or s.options.get("prov", True) is False:
            optout[s.key()] += 1
        else:
            per_key[s.key()] += 1
    for key, n in per_key.items():
        if n > 1:
            names = [s.task_name for s in ctl.submissions if s.key() == key]
            raise Violation("submitted-twice" + (":besides-an-opted-out-twin" if optout[key] else ""),
                            f"call {names[0]} args_hash={key[1][:8]} handed to an executor {n} times in one execution, not "
                            f"counting {optout[key]} opted-out twin(s) (completion order {ctl.completion_order})", case)
    for (parent, eh), n in probe.jobs_per_expr.items():
        if n > 1:
            raise Violation("expression-evaluated-twice", f"{n} jobs created for one expression (hash {eh[:8]}) under the same parent job", case)
    if not P.outcome_in(kind, payload, exp):
        raise Violation("wrong-outcome", f"got {kind} {payload!r}; reference oks={exp.oks[:2]!r} "
                        f"errs={[P.err_key(e) for e in exp.errs[:3]]}", case)


def oracle(ctx: Ctx, case):
    exp = P.reference(case["prog"])
    kind, payload, ctl, probe = execute(case)
    judge(case, kind, payload, ctl, probe, exp)
    return probe


def run_case(ctx: Ctx, case, tag="random") -> None:
    probe = None
    try:
        probe = oracle(ctx, case)
    finally:
        labels = [f"sched:{tag}", f"fine:{case['fine']}"]
        nt = False
        if probe is not None:
            labels += sorted(probe.classes)
            nt = bool(probe.classes)
        ctx.case(case, labels=labels, nontrivial=nt)


def dfs_case(ctx: Ctx, case, cap: int) -> int:
    """Enumerate the schedules of one program (fine interleavings), up to cap."""
    exp = P.reference(case["prog"])
    n = 0
    exhausted = True
    holder = {}

    def run(prefix):
        kind, payload, ctl, probe = execute(case, decisions=prefix, exact=True)
        holder["last"] = (kind, payload, ctl, probe)
        return ctl

    gen = C.dfs_schedules(run, cap)
    for prefix, ctl in gen:
        n += 1
        kind, payload, _, probe = holder["last"]
        c2 = dict(case, decisions=list(ctl.choices), exact=True)
        labels = ["sched:dfs", f"fine:{case['fine']}"] + sorted(probe.classes)
        ctx.case(c2, labels=labels, nontrivial=bool(probe.classes))
        try:
            judge(c2, kind, payload, ctl, probe, exp)
        except Violation as v:
            if not ctx.absorb(v):
                raise
    if n >= cap:
        exhausted = False
    ctx.coverage_extra["dfs_programs"] = ctx.coverage_extra.get("dfs_programs", 0) + 1
    ctx.coverage_extra["dfs_programs_exhausted"] = ctx.coverage_extra.get("dfs_programs_exhausted", 0) + (1 if exhausted else 0)
    ctx.coverage_extra["dfs_schedules"] = ctx.coverage_extra.get("dfs_schedules", 0) + n
    return n


def check(ctx: Ctx) -> None:
    C.quiet_logs()
    ctx.given(cases(), lambda c: run_case(ctx, c), ctx.n(220, 8000))
    # bounded exhaustive enumeration for a sample of programs
    import hypothesis

    progs = []

    @hypothesis.seed(ctx.hseed())
    @ctx.settings(ctx.n(10, 320), shrink=False)
    @hypothesis.given(cases())
    def collect(c):
        progs.append(c)

    collect()
    for c in progs:
        c = dict(c, fine=True)
        dfs_case(ctx, c, ctx.pick(50, 400))


def replay(ctx: Ctx, case) -> None:
    C.quiet_logs()
    exp = P.reference(case["prog"])
    kind, payload, ctl, probe = execute(case, exact=bool(case.get("exact")))
    judge(case, kind, payload, ctl, probe, exp)
