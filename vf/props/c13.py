"""C13 — promises settle once and notify every callback exactly once (model-based histories)."""
from __future__ import annotations

from hypothesis import strategies as st

from vf.core import Ctx, Violation

ID = "C13"
LEVEL = "exploration"
RULE = (
    "Generated operation histories (<=30 ops) over redun.promise.Promise: new / new-with-executor "
    "(resolves, rejects, raises, settles twice) / then & catch with callbacks that return, raise, "
    "return another promise, settle some promise re-entrantly or register further callbacks / "
    "do_resolve / do_reject (repeated) / Promise.all / wait_promises (duplicates and empty lists "
    "included). Oracle: an independent reference promise run on the same history; compared after "
    "every op on the state+value of every promise, plus direct invariants (first settlement wins, "
    "each matching-side callback exactly once and only after settlement, other side never, "
    "per-promise invocation order == registration order among callbacks registered while pending). "
    "Non-trivial = history with a re-entrant settlement/registration executed inside a callback or a "
    "registration after settlement."
)
ASSUMPTIONS = [
    "settlement and notification are synchronous (the scheduler reads promise state right after its loop)",
    "callbacks raise Exception subclasses only",
]
MANIFEST = {"technique": "model-based testing: generated histories vs. reference promise (Hypothesis)"}

vals = st.integers(0, 4)
pidx = st.integers(0, 30)

simple_act = st.one_of(
    st.tuples(st.just("ret"), vals),
    st.tuples(st.just("raise"), vals),
    st.tuples(st.just("retp"), pidx),
)
act = st.one_of(
    simple_act,
    st.tuples(st.just("settle"), pidx, st.sampled_from(["resolve", "reject"]), vals),
    st.tuples(st.just("register"), pidx, st.sampled_from(["res", "rej", "both"]), simple_act),
)
cb = st.one_of(st.none(), act)

op = st.one_of(
    st.tuples(st.just("new")),
    st.tuples(st.just("new_exec"), st.sampled_from(
        ["resolve", "reject", "raise", "resolve_reject", "reject_resolve", "resolve_raise", "noop"]), vals),
    st.tuples(st.just("then"), pidx, cb, cb),
    st.tuples(st.just("catch"), pidx, act),
    st.tuples(st.just("resolve"), pidx, vals),
    st.tuples(st.just("reject"), pidx, vals),
    st.tuples(st.just("all"), st.lists(pidx, max_size=4)),
    st.tuples(st.just("wait"), st.lists(pidx, max_size=4)),
)
histories = st.lists(op, min_size=1, max_size=30).map(lambda ops: [list(o) for o in ops])


class Err(Exception):
    def __init__(self, n):
        super().__init__(f"E{n}")
        self.n = n


# ------------------------------------------------------------------ reference promise
class RP:
    def __init__(self):
        self.state = "pending"
        self.val = None
        self.cbs = []

    def settle(self, state, val):
        if self.state != "pending":
            return
        self.state, self.val = state, val
        cbs, self.cbs = self.cbs, []
        for e in cbs:
            self._run(e)

    def resolve(self, v):
        self.settle("fulfilled", v)

    def reject(self, e):
        self.settle("rejected", e)

    def then(self, res=None, rej=None):
        child = RP()
        entry = (res, rej, child)
        if self.state == "pending":
            self.cbs.append(entry)
        else:
            self._run(entry)
        return child

    def _run(self, entry):
        res, rej, child = entry
        f = res if self.state == "fulfilled" else rej
        if f is None:
            child.settle(self.state, self.val)
            return
        try:
            r = f(self.val)
        except Exception as e:  # noqa: BLE001
            child.reject(e)
            return
        if isinstance(r, RP):
            r.then(child.resolve, child.reject)
        else:
            child.resolve(r)

    @staticmethod
    def all(ps):
        out = RP()
        results = [None] * len(ps)
        done = [0]

        def mk(i):
            def f(v):
                results[i] = v
                done[0] += 1
                if done[0] == len(ps):
                    out.resolve(results)
            return f

        for i, p in enumerate(ps):
            p.then(mk(i), out.reject)
        if not ps:
            out.resolve(results)
        return out

    @staticmethod
    def wait(ps):
        out = RP()
        done = [0]

        def f(_):
            done[0] += 1
            if done[0] == len(ps):
                out.resolve(list(ps))

        for p in ps:
            p.then(f, f)
        if not ps:
            out.resolve([])
        return out


class RealAdapter:
    """Uniform view over redun.promise.Promise."""

    def __init__(self):
        from redun.promise import Promise, wait_promises

        self.P = Promise
        self.wait_promises = wait_promises

    def new(self, func=None):
        return self.P(func) if func else self.P()

    def then(self, p, res, rej):
        return p.then(res, rej)

    def catch(self, p, rej):
        return p.catch(rej)

    def resolve(self, p, v):
        p.do_resolve(v)

    def reject(self, p, e):
        p.do_reject(e)

    def all(self, ps):
        return self.P.all(ps)

    def wait(self, ps):
        return self.wait_promises(ps)

    def state(self, p):
        if p.is_pending:
            return ("pending", None)
        if p.is_fulfilled:
            return ("fulfilled", p.value)
        return ("rejected", p.error)

    def is_promise(self, x):
        return isinstance(x, self.P)


class ModelAdapter:
    def new(self, func=None):
        p = RP()
        if func:
            try:
                func(p.resolve, p.reject)
            except Exception as e:  # noqa: BLE001
                p.reject(e)
        return p

    def then(self, p, res, rej):
        return p.then(res, rej)

    def catch(self, p, rej):
        return p.then(None, rej)

    def resolve(self, p, v):
        p.resolve(v)

    def reject(self, p, e):
        p.reject(e)

    def all(self, ps):
        return RP.all(ps)

    def wait(self, ps):
        return RP.wait(ps)

    def state(self, p):
        return (p.state, p.val)

    def is_promise(self, x):
        return isinstance(x, RP)


class World:
    """Interprets a history against one promise implementation."""

    def __init__(self, ad):
        self.ad = ad
        self.ps = []
        self.errs = {}
        self.log = []           # (cb_id, source promise idx, side, arg label)
        self.regs = []          # cb_id -> dict(src, side, pending_at_registration)
        self.snaps = []
        self.reentrant = 0
        self.late = 0
        self.depth = 0

    def err(self, n):
        if n not in self.errs:
            self.errs[n] = Err(n)
        return self.errs[n]

    def lab(self, x):
        if isinstance(x, Err):
            return f"E{x.n}"
        if self.ad.is_promise(x):
            return f"P{self.ps.index(x)}" if x in self.ps else "P?"
        if isinstance(x, list):
            return [self.lab(i) for i in x]
        if isinstance(x, Exception):
            return f"{type(x).__name__}:{x}"
        return x

    def get(self, i):
        return self.ps[i % len(self.ps)]

    def mk_cb(self, src_idx, side, a):
        if a is None:
            return None
        cb_id = len(self.regs)
        self.regs.append({"src": src_idx, "side": side,
                          "pending": self.ad.state(self.ps[src_idx])[0] == "pending"})

        def f(arg):
            self.log.append((cb_id, src_idx, side, self.lab(arg)))
            self.depth += 1
            try:
                return self.do_act(a)
            finally:
                self.depth -= 1

        return f

    def do_act(self, a):
        kind = a[0]
        if kind == "ret":
            return a[1]
        if kind == "raise":
            raise self.err(a[1])
        if kind == "retp":
            return self.get(a[1])
        if kind == "settle":
            self.reentrant += 1
            p = self.get(a[1])
            if a[2] == "resolve":
                self.ad.resolve(p, a[3])
            else:
                self.ad.reject(p, self.err(a[3]))
            return a[3]
        if kind == "register":
            self.reentrant += 1
            i = a[1] % len(self.ps)
            p = self.ps[i]
            res = self.mk_cb(i, "res", a[3]) if a[2] in ("res", "both") else None
            rej = self.mk_cb(i, "rej", a[3]) if a[2] in ("rej", "both") else None
            self.ps.append(self.ad.then(p, res, rej))
            return 0
        raise AssertionError(a)

    def step(self, o):
        kind = o[0]
        if kind == "new":
            self.ps.append(self.ad.new())
        elif kind == "new_exec":
            how, v = o[1], o[2]

            def func(resolve, reject):
                if how == "resolve":
                    resolve(v)
                elif how == "reject":
                    reject(self.err(v))
                elif how == "raise":
                    raise self.err(v)
                elif how == "resolve_reject":
                    resolve(v)
                    reject(self.err(v))
                elif how == "reject_resolve":
                    reject(self.err(v))
                    resolve(v)
                elif how == "resolve_raise":
                    resolve(v)
                    raise self.err(v + 1)

            self.ps.append(self.ad.new(func))
        elif not self.ps:
            self.ps.append(self.ad.new())
        elif kind == "then":
            i = o[1] % len(self.ps)
            if self.ad.state(self.ps[i])[0] != "pending" and (o[2] or o[3]):
                self.late += 1
            res = self.mk_cb(i, "res", o[2])
            rej = self.mk_cb(i, "rej", o[3])
            self.ps.append(self.ad.then(self.ps[i], res, rej))
        elif kind == "catch":
            i = o[1] % len(self.ps)
            if self.ad.state(self.ps[i])[0] != "pending":
                self.late += 1
            self.ps.append(self.ad.catch(self.ps[i], self.mk_cb(i, "rej", o[2])))
        elif kind == "resolve":
            self.ad.resolve(self.get(o[1]), o[2])
        elif kind == "reject":
            self.ad.reject(self.get(o[1]), self.err(o[2]))
        elif kind == "all":
            self.ps.append(self.ad.all([self.get(i) for i in o[1]]))
        elif kind == "wait":
            self.ps.append(self.ad.wait([self.get(i) for i in o[1]]))
        else:
            raise AssertionError(o)
        self.snaps.append([(s, self.lab(v)) for s, v in (self.ad.state(p) for p in self.ps)])


def oracle(ctx: Ctx, ops: list) -> tuple[int, int]:
    real = World(RealAdapter())
    model = World(ModelAdapter())
    for k, o in enumerate(ops):
        model.step(o)
        with ctx.no_raise("promise-op", ops):
            real.step(o)
        # 1. states agree with the reference after every step
        if real.snaps[-1] != model.snaps[-1]:
            diff = [(i, a, b) for i, (a, b) in enumerate(zip(real.snaps[-1], model.snaps[-1])) if a != b]
            raise Violation("state-mismatch", f"after op {k} {o}: promise states differ (idx, real, model): {diff[:3]} "
                            f"(#promises real={len(real.snaps[-1])} model={len(model.snaps[-1])})", ops)
        # 2. first settlement wins: a settled promise never changes
        if k > 0:
            prev = real.snaps[-2]
            for i, (a, b) in enumerate(zip(prev, real.snaps[-1])):
                if a[0] != "pending" and a != b:
                    raise Violation("resettled", f"promise {i} changed from {a} to {b} at op {k}", ops)
    # 3. callbacks: exactly once iff side matches, never otherwise, only after settlement
    counts = {}
    for cb_id, src, side, arg in real.log:
        counts[cb_id] = counts.get(cb_id, 0) + 1
    final = real.snaps[-1]
    for cb_id, reg in enumerate(real.regs):
        st_, val = final[reg["src"]]
        want = 1 if (st_ == "fulfilled" and reg["side"] == "res") or (st_ == "rejected" and reg["side"] == "rej") else 0
        got = counts.get(cb_id, 0)
        if got != want:
            raise Violation("callback-count", f"callback {cb_id} on promise {reg['src']} side={reg['side']} "
                            f"(final {st_}) ran {got} times, expected {want}", ops)
    for cb_id, src, side, arg in real.log:
        if arg != final[src][1]:
            raise Violation("callback-arg", f"callback {cb_id} got {arg!r}, promise {src} settled with {final[src][1]!r}", ops)
    # 4. per-promise order == registration order among callbacks registered while pending
    per = {}
    for cb_id, src, side, arg in real.log:
        if real.regs[cb_id]["pending"]:
            per.setdefault(src, []).append(cb_id)
    for src, seq in per.items():
        if seq != sorted(seq):
            raise Violation("callback-order", f"callbacks on promise {src} ran in order {seq}", ops)
    # 5. same multiset of invocations as the reference
    if sorted(map(repr, real.log)) != sorted(map(repr, model.log)):
        raise Violation("log-mismatch", f"callback invocations differ: real={real.log[:6]} model={model.log[:6]}", ops)
    return real.reentrant, real.late


def run_case(ctx: Ctx, ops: list) -> None:
    re_, late = 0, 0
    try:
        re_, late = oracle(ctx, ops)
    finally:
        kinds = {o[0] for o in ops}
        ctx.case(ops, labels=[f"op:{k}" for k in sorted(kinds)] + (["reentrant"] if re_ else []) + (["late"] if late else []),
                 nontrivial=bool(re_ or late))


def check(ctx: Ctx) -> None:
    ctx.given(histories, lambda ops: run_case(ctx, ops), ctx.n(1500, 80000))


def replay(ctx: Ctx, case) -> None:
    oracle(ctx, [list(o) for o in case])
