"""C03 — shallow (ultimate-reduction) cache hits respect code changes in the subtree."""
from __future__ import annotations

from hypothesis import strategies as st

from vf.core import Ctx, Violation, shard_range
from vf.lab import codefam
from vf.lab import ctl as C
from vf.lab import dbx, transfer
from vf.lab import schedrun

ID = "C03"
LEVEL = "fault_enumeration"
RULE = (
    "Program family main -> mid(check_valid='shallow') -> child -> leaf (generated bodies: lazy call "
    "chains, two callees, catch of a raising leaf, arithmetic; main sometimes shallow too). (1) For "
    "the first recording run of each family — on an empty repository and on a repository that "
    "received the call graph by push from another one — EVERY backend commit point x {die before, die "
    "after, one transient OperationalError} and EVERY SQL statement executed inside a db_retry-wrapped "
    "backend method x {one transient OperationalError} is enumerated (exhaustive per workload in the "
    "thorough tier; quick takes a seed-dependent third of the statement points and of the imported "
    "phase); after each fault the "
    "database is reopened (after death) and, for every task i of the subtree, the history 'edit task "
    "i -> run' must return what a fresh backend returns for the edited code (then 'revert -> run' "
    "the original result). (2) Hypothesis-generated histories over {run, edit any of mid/child/leaf, "
    "revert (the root included), fault at commit k / statement s of a run, transfer all records into a fresh repository by push/pull or "
    "by export -> JSON lines -> import and continue there}: every completed run must equal the "
    "fresh-backend run of the same code. (3) Schedule sweep: a family in which the shallow task reaches "
    "its deeper subtree only through a call that duplicates a sibling's call (CSE) is recorded under every "
    "completion schedule of length 4 over 3 choices, then each subtree task is edited and reverted. "
    "Structural companion reported with failures: call nodes "
    "that a shallow lookup may return and that have no CallSubtreeTask rows. Non-trivial = a subtree "
    "edit after a recording that was interrupted, retried or imported, followed by a shallow-cached run."
)
ASSUMPTIONS = [
    "SQLite atomic commit; one fault per run; tasks are deterministic",
    "transfer moves every record reachable from all executions (partial transfers are C23's subject)",
]
MANIFEST = {
    "technique": "exhaustive fault enumeration on the recording run + model-based histories with record transfer, differential vs fresh backend",
    "text": "fault_enumeration: every commit point x 3 fault kinds and every retried SQL statement x 1 of the first recording run (on an empty and on an imported repository), each followed by an edit of every subtree task; plus generated histories mixing edits, faults and transfers",
}
SHARDS = 16

FIXED = [
    {"name": "chain4", "init": [{"k": "call", "callee": 1, "shift": 0, "add": 1},
                                {"k": "call", "callee": 2, "shift": 0, "add": 0, "opts": {"check_valid": "shallow"}},
                                {"k": "call", "callee": 3, "shift": 1, "add": 0}, {"k": "arith", "mul": 1, "add": 1}, {"k": "parse", "add": 0}],
     "arg": 0},
    {"name": "shallow-root", "init": [{"k": "call2", "callees": [1, 2], "opts": {"check_valid": "shallow"}},
                                      {"k": "catch", "callee": 3, "add": 0, "opts": {"check_valid": "shallow"}},
                                      {"k": "call", "callee": 3, "shift": 1, "add": 2}, {"k": "raise_if", "mod": 5, "add": 1}, {"k": "parse", "add": 0}],
     "arg": 1},
    # the shallow task t2 reaches t3 -> t4 only through a call that is a duplicate within the
    # execution (t1 made the same call t3(x) first): it is answered by CSE, without child jobs
    {"name": "cse-below-shallow", "init": [{"k": "call2s", "callees": [1, 2]},
                                           {"k": "call", "callee": 3, "shift": 0, "add": 1},
                                           {"k": "call", "callee": 3, "shift": 0, "add": 2, "opts": {"check_valid": "shallow"}},
                                           {"k": "call", "callee": 4, "shift": 0, "add": 0}, {"k": "arith", "mul": 1, "add": 1},
                                           {"k": "parse", "add": 0}],
     "arg": 1},
    # a task that records no provenance in the middle of the shallow task's subtree: the tasks
    # beneath it still belong to the subtree
    {"name": "noprov-middle", "init": [{"k": "call", "callee": 1, "shift": 0, "add": 1},
                                       {"k": "call", "callee": 2, "shift": 0, "add": 0, "opts": {"check_valid": "shallow"}},
                                       {"k": "call", "callee": 3, "shift": 1, "add": 0, "opts": {"prov": False}},
                                       {"k": "call", "callee": 4, "shift": 0, "add": 2}, {"k": "arith", "mul": 2, "add": 1},
                                       {"k": "parse", "add": 0}],
     "arg": 1},
]


def alt_variant(v, bump=7):
    """A different body for the same task (same kind, other constant)."""
    w = dict(v)
    if w["k"] == "arith":
        w["add"] = w["add"] + bump
    elif w["k"] == "raise_if":
        w["add"] = w["add"] + bump
    elif w["k"] in ("call", "catch"):
        w["add"] = w["add"] + bump
    elif w["k"] == "call2":
        w = {**{k: x for k, x in w.items() if k in ("opts", "ver")}, "k": "call", "callee": w["callees"][0], "shift": 0, "add": bump}
    return w


@st.composite
def families(draw):
    from vf.props import c02

    n = 5
    init = []
    for i in range(n):
        if i == n - 1:
            init.append({"k": "parse", "add": 0})
            continue
        v = dict(draw(c02.variant_strategy(i, n, False)))
        if v["k"] == "readfile":
            v = {"k": "arith", "mul": 1, "add": draw(st.integers(0, 3))}
        init.append(v)
    # make it a chain so that there is a subtree below the shallow task
    init[0] = {"k": "call", "callee": 1, "shift": 0, "add": 1}
    if init[1]["k"] in ("arith", "raise_if"):
        init[1] = {"k": "call", "callee": 2, "shift": 0, "add": 0}
    init[1]["opts"] = {"check_valid": "shallow"}
    if draw(st.booleans()):
        init[0]["opts"] = {"check_valid": "shallow"}
    if draw(st.integers(0, 3)) == 0:
        init[draw(st.integers(2, 3))]["opts"] = {"prov": False}      # a no-provenance task inside the subtree
    return {"name": "gen", "init": init, "arg": draw(st.integers(0, 3))}


@st.composite
def histories(draw):
    w = draw(families())
    ops = [["run", []]]
    if draw(st.integers(0, 1)) == 0:
        # two different tasks edited one after the other with a run in between: the second run's
        # re-recorded nodes hang over cache-hit children, whose subtree tasks come from the database
        a = draw(st.sampled_from([0, 0, 1, 1, 2]))
        b = draw(st.sampled_from([i for i in (2, 3, 3, 1) if i != a]))
        ops += [["edit", a, draw(st.integers(1, 9))], ["run", []], ["edit", b, draw(st.integers(1, 9))], ["run", []]]
    for _ in range(draw(st.integers(2, 8))):
        c = draw(st.sampled_from(["run", "edit", "edit", "revert", "fault", "transfer"]))
        if c == "run":
            ops.append(["run", draw(st.lists(st.integers(0, 3), max_size=8))])
        elif c == "edit":
            ops.append(["edit", draw(st.integers(0, 3)), draw(st.integers(1, 9))])
        elif c == "revert":
            ops.append(["revert", draw(st.integers(0, 3))])
        elif c == "fault":
            kind = draw(st.sampled_from(["before", "after", "operr", "stmt", "stmt"]))
            ops.append(["fault", draw(st.integers(1, 120 if kind == "stmt" else 40)), kind])
        else:
            ops.append(["transfer", draw(st.sampled_from(["push", "export"]))])
        if c in ("edit", "revert", "transfer", "fault") and draw(st.booleans()):
            ops.append(["run", []])
    if ops[-1][0] != "run":
        ops.append(["run", []])
    return {"history": True, "family": w, "ops": ops}


def outcome(r):
    if r.kind == "ok":
        return ("ok", r.payload)
    if r.kind == "err":
        return ("err", type(r.payload).__name__)
    return (r.kind, str(r.payload)[:80])


_fresh_memo: dict = {}


def fresh_result(fam, arg):
    """What a fresh backend returns for the current code (memoised per code table: tasks are deterministic)."""
    key = (codefam.canon(fam.variants), arg)
    if key not in _fresh_memo:
        if len(_fresh_memo) > 5000:
            _fresh_memo.clear()
        _fresh_memo[key] = outcome(schedrun.run_program(None, decisions=[], expr=fam.root_expr(arg)))
    return _fresh_memo[key]


def orphans(backend) -> int:
    """Call nodes without any CallSubtreeTask row (every properly recorded node has its own task)."""
    from sqlalchemy import text

    with backend.engine.connect() as conn:
        return conn.execute(text("select count(*) from call_node c where not exists "
                                 "(select 1 from call_subtree_task s where s.call_hash = c.call_hash)")).scalar()


def check_run(case, fam, arg, backend, decisions, what, tag):
    r = schedrun.run_program(None, decisions=decisions, expr=fam.root_expr(arg), backend=backend)
    got = outcome(r)
    want = fresh_result(fam, arg)
    if got != want:
        raise Violation(f"stale-shallow-hit:{tag}", f"{what}: the shared backend gave {got}, a fresh backend gives {want} "
                        f"(call nodes without subtree-task rows: {orphans(backend)})", case)
    return r


def imported_backend(w, how="push"):
    """A repository that received the fault-free recording of family w from another repository."""
    fam = codefam.Family(len(w["init"]))
    fam.install_all(w["init"])
    src = dbx.fresh_backend()
    try:
        schedrun.run_program(None, decisions=[], expr=fam.root_expr(w["arg"]), backend=src)
        dst = dbx.fresh_backend()
        if how == "push":
            transfer.sync(src, dst)
        else:
            transfer.import_lines(dst, transfer.export_lines(src))
        return dst
    finally:
        dbx.discard_backend(src)


def copy_backend(backend):
    import shutil

    src = backend.db_uri[len("sqlite:///"):]
    backend.session.commit()
    dst = dbx.new_db_path()
    shutil.copyfile(src, dst)
    return dbx.open_backend(dst)


def fault_then_edits(ctx: Ctx, w, k: int, kind: str, only=None, imported=None, template=None) -> str:
    """Recording run with one fault at commit k (kind before/after/operr) or at statement k of the
    retried operations (kind stmt), then edit each subtree task in turn. With `imported` the
    recording run happens in a repository that received the call graph by transfer."""
    case = {"family": w, "k": k, "kind": kind}
    if imported:
        case["imported"] = imported
    fam = codefam.Family(len(w["init"]))
    fam.install_all(w["init"])
    if imported:
        b = copy_backend(template) if template is not None else imported_backend(w, imported)
    else:
        b = dbx.fresh_backend()
    fs = dbx.FaultyStatements(b, at=k) if kind == "stmt" else dbx.FaultySession(b, at=k, kind=kind)
    tag = {"before": "interrupted", "after": "interrupted", "operr": "retried", "stmt": "retried"}[kind]
    if imported:
        tag = "imported+" + tag
    try:
        try:
            r = schedrun.run_program(None, decisions=[], expr=fam.root_expr(w["arg"]), backend=b)
            died = False
        except dbx.Crash:
            died = True
        site = fs.fired or "not-reached"
        fs.remove()
        if died:
            b = dbx.reopen(b)
        elif kind in ("operr", "stmt") and fs.fired is not None and r.kind == "err" and fresh_result(fam, w["arg"])[0] != "err":
            return site          # the run itself failed on the transient error: C22's subject
        # complete the recording, then edit every task below the shallow one
        check_run(case, fam, w["arg"], b, [], f"re-run after fault {kind}@{site}", tag)
        for i in range(0, len(w["init"]) - 1):
            if i not in fam.uses() or (only is not None and i not in only):
                continue
            orig = fam.variants[i]
            fam.install(i, alt_variant(orig))
            check_run(case, fam, w["arg"], b, [], f"after fault {kind}@{site}: task t{i} edited", tag)
            fam.install(i, orig)
            check_run(case, fam, w["arg"], b, [], f"after fault {kind}@{site}: task t{i} reverted", tag)
        return site
    finally:
        fs.remove()
        try:
            dbx.discard_backend(b)
        except Exception:  # noqa: BLE001
            pass


def count_points(w, backend=None) -> tuple:
    """(commit points, statements inside retried operations) of the fault-free recording run."""
    fam = codefam.Family(len(w["init"]))
    fam.install_all(w["init"])
    counts = []
    for cls in (dbx.FaultySession, dbx.FaultyStatements):
        b = dbx.fresh_backend() if backend is None else copy_backend(backend)
        try:
            fs = cls(b)
            schedrun.run_program(None, decisions=[], expr=fam.root_expr(w["arg"]), backend=b)
            fs.remove()
            counts.append(fs.count)
        finally:
            dbx.discard_backend(b)
    return tuple(counts)


def enumerate_family(ctx: Ctx, w) -> None:
    """Every fault point of the first recording run, on an empty repository and on one that received
    the call graph by transfer. Thorough: all points, every subtree task edited. Quick: all commit
    points of the empty-repository phase; of the statement points and of the imported phase a
    seed-dependent third; the two deepest tasks edited."""
    only = None if ctx.thorough else {len(w["init"]) - 2, len(w["init"]) - 3}
    stride = 1 if ctx.thorough else 3
    for imported in (None, "push"):
        template = imported_backend(w, imported) if imported else None
        try:
            n, ns = count_points(w, template)
            points = [(k, kind) for k in range(1, n + 1) for kind in ("before", "after", "operr")]
            if imported:
                points = [p for i, p in enumerate(points) if (i + ctx.seed) % stride == 0]
            points += [(k, "stmt") for k in range(1, ns + 1) if (k + ctx.seed) % stride == 0]
            for k, kind in points:
                site = "?"
                cs = {"family": w["name"], "k": k, "kind": kind, "init": w["init"], "imported": imported}
                try:
                    site = fault_then_edits(ctx, w, k, kind, only, imported, template)
                except Violation as v:
                    ctx.case(cs, labels=[f"kind:{kind}", f"imported:{imported}", "violating"], nontrivial=True)
                    if not ctx.absorb(v):
                        raise
                    continue
                ctx.case(cs, labels=[f"kind:{kind}", f"imported:{imported}", "site:" + site.split("#")[0].split("<")[0]],
                         nontrivial=site != "not-reached")
            ctx.coverage_extra["commit_points"] = ctx.coverage_extra.get("commit_points", 0) + n
            ctx.coverage_extra["statement_points"] = ctx.coverage_extra.get("statement_points", 0) + ns
        finally:
            if template is not None:
                dbx.discard_backend(template)
    ctx.coverage_extra["families_enumerated"] = ctx.coverage_extra.get("families_enumerated", 0) + 1


def run_history(ctx: Ctx, case) -> dict:
    w = case["family"]
    fam = codefam.Family(len(w["init"]))
    fam.install_all(w["init"])
    b = dbx.fresh_backend()
    info = {"tag": "plain", "nt": False, "disturbed": False, "edited_after": False}
    try:
        for op in case["ops"]:
            if op[0] == "run":
                check_run(case, fam, w["arg"], b, op[1], f"run after {info['tag']}", info["tag"])
                if info["disturbed"] and info["edited_after"]:
                    info["nt"] = True
            elif op[0] == "edit":
                i = op[1]
                fam.install(i, alt_variant(w["init"][i], op[2]))
                if info["disturbed"]:
                    info["edited_after"] = True
            elif op[0] == "revert":
                fam.install(op[1], w["init"][op[1]])
                if info["disturbed"]:
                    info["edited_after"] = True
            elif op[0] == "fault":
                fs = dbx.FaultyStatements(b, at=op[1]) if op[2] == "stmt" else dbx.FaultySession(b, at=op[1], kind=op[2])
                try:
                    try:
                        schedrun.run_program(None, decisions=[], expr=fam.root_expr(w["arg"]), backend=b)
                        died = False
                    except dbx.Crash:
                        died = True
                finally:
                    fs.remove()
                if fs.fired:
                    info["tag"] = "interrupted" if op[2] in ("before", "after") else "retried"
                    info["disturbed"] = True
                    info["edited_after"] = False
                if died:
                    b = dbx.reopen(b)
            elif op[0] == "transfer":
                dst = dbx.fresh_backend()
                if op[1] == "push":
                    transfer.sync(b, dst)
                else:
                    transfer.import_lines(dst, transfer.export_lines(b))
                dbx.discard_backend(b)
                b = dst
                info["tag"] = "imported"
                info["disturbed"] = True
                info["edited_after"] = False
    finally:
        try:
            dbx.discard_backend(b)
        except Exception:  # noqa: BLE001
            pass
    return info


def run_history_case(ctx: Ctx, case) -> None:
    info = None
    try:
        info = run_history(ctx, case)
    finally:
        kinds = sorted({op[0] for op in case["ops"]})
        ctx.case(case, labels=["history"] + [f"op:{k}" for k in kinds] + ([f"after:{info['tag']}"] if info else []),
                 nontrivial=bool(info and info["nt"]))


def schedule_sweep(ctx: Ctx, w) -> None:
    """Fault-free: the recording run under every completion schedule of length 4 over 3 choices
    then an edit (thorough: and revert) of each task below the shallow one (quick: the deepest one).
    Which of two equivalent calls runs first, and whether the second one finds its twin pending or
    finished, is decided by the schedule."""
    import itertools

    scheds = list(itertools.product(range(3), repeat=4))
    n = len(w["init"])
    if ctx.thorough:
        scheds = shard_range(ctx, scheds)
        edits = list(range(1, n - 1))
    else:
        edits = [n - 2]                # quick: every schedule, the deepest task only, no revert step
    for d in scheds:
        for i in edits:
            ops = [["run", list(d)], ["edit", i, 3], ["run", []]] + ([["revert", i], ["run", []]] if ctx.thorough else [])
            case = {"history": True, "family": w, "ops": ops}
            try:
                run_history(ctx, case)
            except Violation as v:
                ctx.case({"sweep": w["name"], "schedule": list(d), "edit": i}, labels=["sweep", "violating"], nontrivial=True)
                if not ctx.absorb(v):
                    raise
                continue
            ctx.case({"sweep": w["name"], "schedule": list(d), "edit": i}, labels=["sweep"], nontrivial=True)


def edit_sweep(ctx: Ctx) -> None:
    """Fault-free: for every fixed family and every task of it: run, edit the task, run, revert, run."""
    for w in FIXED:
        for i in range(len(w["init"]) - 1):
            case = {"history": True, "family": w, "ops": [["run", []], ["edit", i, 3], ["run", []], ["revert", i], ["run", []]]}
            try:
                run_history(ctx, case)
            except Violation as v:
                ctx.case({"edit-sweep": w["name"], "edit": i}, labels=["edit-sweep", "violating"], nontrivial=True)
                if not ctx.absorb(v):
                    raise
                continue
            ctx.case({"edit-sweep": w["name"], "edit": i}, labels=["edit-sweep"], nontrivial=True)


def mixed_sweep(ctx: Ctx) -> None:
    """A repository that holds its own recording of a call AND another recording of the same call
    (same task hash and arguments, other code beneath) pulled from a second repository; then the
    code beneath is edited again, and reverted."""
    for w in FIXED:
        n = len(w["init"])
        for i in range(2, n - 1):
            case = {"mixed": True, "family": w["name"], "task": i}
            fam = codefam.Family(n)
            fam.install_all(w["init"])
            if i not in fam.uses():
                continue
            mine, theirs = dbx.fresh_backend(), dbx.fresh_backend()
            try:
                orig = fam.variants[i]
                check_run(case, fam, w["arg"], mine, [], "own recording", "mixed")
                fam.install(i, alt_variant(orig, 5))
                check_run(case, fam, w["arg"], theirs, [], "other repository's recording", "mixed")
                transfer.sync(theirs, mine)
                fam.install(i, alt_variant(orig, 9))
                check_run(case, fam, w["arg"], mine, [], f"after pulling another recording of the call: task t{i} edited", "own+imported")
                fam.install(i, orig)
                check_run(case, fam, w["arg"], mine, [], f"after pulling another recording of the call: task t{i} reverted", "own+imported")
            except Violation as v:
                ctx.case(case, labels=["mixed-sweep", "violating"], nontrivial=True)
                if not ctx.absorb(v):
                    raise
                continue
            finally:
                dbx.discard_backend(mine)
                dbx.discard_backend(theirs)
            ctx.case(case, labels=["mixed-sweep"], nontrivial=True)


def check(ctx: Ctx) -> None:
    C.quiet_logs()
    if ctx.shard in (None, 0):
        edit_sweep(ctx)
        mixed_sweep(ctx)
    fams = list(FIXED[:1]) if not ctx.thorough else shard_range(ctx, list(FIXED))
    for w in fams:
        enumerate_family(ctx, w)
    ctx.coverage_extra["exhaustive"] = True
    schedule_sweep(ctx, FIXED[2])
    ctx.given(histories(), lambda c: run_history_case(ctx, c), ctx.n(30, 1600))


def replay(ctx: Ctx, case) -> None:
    C.quiet_logs()
    if case.get("mixed"):
        mixed_sweep(ctx)
        return
    if case.get("history"):
        run_history(ctx, case)
    else:
        fault_then_edits(ctx, case["family"], case["k"], case["kind"], imported=case.get("imported"))
