"""C08 — resource limits are never exceeded; units are returned exactly once."""
from __future__ import annotations

from hypothesis import strategies as st

from vf.core import Ctx, Violation
from vf.lab import ctl as C
from vf.lab import progs as P
from vf.props import _limits as L

ID = "C08"
LEVEL = "exploration"
RULE = (
    "(plus a reused-scheduler scenario: a first execution fails while 1..limit-1 limited jobs are still with their "
    "executor; a second execution on the same Scheduler object runs 2-4 limited jobs under generated schedules; "
    "units held by the stragglers plus the new jobs never exceed the limit and limits_used ends at the stragglers' units) "
    "Hypothesis-generated programs whose task calls carry list- and dict-form `limits` over three "
    "resource names (one always configured 1-3, one sometimes, one never = default 1), with failing "
    "jobs, duplicates (CSE), catch/catch_all and jobs rejected before reaching an executor (unknown "
    "executor); each run under a generated completion schedule of the harness-owned executor (coarse "
    "and fine interleavings). Oracle: at every submission, for each resource the units of all jobs "
    "submitted and not yet reported done/failed are <= the configured limit (1 if unconfigured); the "
    "scheduler's own accounting never goes negative; when a run succeeds nothing is left waiting and "
    "the accounting is all zero (each unit returned exactly once, also for failed / rejected / "
    "deduplicated jobs); the result still agrees with the reference interpreter. Non-trivial = some "
    "job was parked waiting for a resource, and a release came from a failure or rejection path."
)
ASSUMPTIONS = ["'held' = submitted to the executor and not yet reported back (the statement's wording)"]
MANIFEST = {"technique": "invariant monitoring over generated programs x generated schedules (Hypothesis, controlled executor)"}


def oracle(ctx: Ctx, case):
    r = L.execute(case)
    sched = r.sched
    if r.limit_violations:
        name, n, lim, idx = r.limit_violations[0]
        raise Violation("limit-exceeded", f"resource {name}: {n} units held by submitted-unfinished jobs, limit {lim} "
                        f"(at submission #{idx})", case)
    neg = {k: v for k, v in sched.limits_used.items() if v < 0}
    if neg:
        raise Violation("negative-accounting", f"limits_used went negative: {neg}", case)
    if r.kind == "ok":
        left = {k: v for k, v in sched.limits_used.items() if v != 0}
        if left:
            raise Violation("units-not-returned", f"run succeeded but limits_used = {left}", case)
        if sched._jobs_pending_limits:
            raise Violation("left-waiting", f"run succeeded with {len(sched._jobs_pending_limits)} jobs still waiting for limits", case)
    if r.kind in ("ok", "err"):
        exp = P.reference(case["prog"])
        if not P.outcome_in(r.kind, r.payload, exp):
            raise Violation("wrong-outcome", f"with limits {case['limits']}: got {r.kind} {r.payload!r}; "
                            f"reference oks={exp.oks[:2]!r} errs={[P.err_key(e) for e in exp.errs[:3]]}", case)
    return r


@st.composite
def reuse_cases(draw):
    """Two executions on ONE Scheduler object: the first fails (a sibling is rejected before reaching
    an executor) while k limited jobs are still out with an executor; they stay unreported while the
    second execution runs n further limited jobs."""
    limit = draw(st.integers(2, 3))
    return {"reuse": True, "limit": limit, "stragglers": draw(st.integers(1, limit - 1)), "second": draw(st.integers(2, 4)),
            "decisions": draw(st.lists(st.integers(0, 3), max_size=12)), "fine": draw(st.booleans())}


def reuse_oracle(ctx: Ctx, case) -> None:
    import vf_tasks
    from vf.lab import dbx

    lim, k, n = case["limit"], case["stragglers"], case["second"]
    sched = C.new_scheduler(limits={"r1": lim})
    try:
        first = ["list", [["task", ["lit", ["int", 5000 + i]], {}, {"limits": ["r1"]}] for i in range(k)]
                 + [["task", ["lit", ["int", 5100]], {}, {"executor": "nope"}]]]
        ctl1 = C.Ctl([], step_budget=4000)
        ctl1.attach(sched)
        try:
            sched.run(vf_tasks.node(P.fresh(first), {}))
            raise Violation("reuse:first-run-did-not-fail", "the first execution was expected to be rejected (unknown executor)", case)
        except (C.Quiescent, C.StepBudget) as q:
            raise Violation("stuck", f"first execution did not terminate: {q}", case)
        except Violation:
            raise
        except Exception:  # noqa: BLE001 - the expected rejection
            pass
        out = len(ctl1.pending)
        if out != k:
            from vf.core import HarnessError

            raise HarnessError(f"expected {k} jobs still out after the first execution, found {out}")
        second = ["list", [["task", ["lit", ["int", 5200 + i]], {}, {"limits": ["r1"]}] for i in range(n)]]
        ctl2 = C.Ctl(case["decisions"], fine=case["fine"], step_budget=4000)
        ctl2.attach(sched)
        worst = [0]

        def monitor(kind, payload):
            if kind == "submit":
                held = k + len(ctl2.pending)
                worst[0] = max(worst[0], held)

        ctl2.monitors.append(monitor)
        try:
            v = sched.run(vf_tasks.node(P.fresh(second), {}))
        except (C.Quiescent, C.StepBudget) as q:
            raise Violation("reuse:stuck", f"second execution on the reused scheduler did not terminate: {q}; "
                            f"limits_used={dict(sched.limits_used)}", case)
        if worst[0] > lim:
            raise Violation("limit-exceeded:reused-scheduler", f"resource r1: {worst[0]} units held at once (of which {k} by jobs "
                            f"of the previous execution that are still with their executor), limit {lim}", case)
        if sched.limits_used.get("r1", 0) != k:
            raise Violation("accounting:reused-scheduler", f"after the second execution limits_used[r1]={sched.limits_used.get('r1')} "
                            f"while {k} job(s) of the first execution are still unreported", case)
        if v != [5200 + i for i in range(n)]:
            raise Violation("wrong-outcome", f"second execution returned {v!r}", case)
    finally:
        dbx.discard_backend(sched.backend)


def run_case(ctx: Ctx, case) -> None:
    if case.get("reuse"):
        try:
            reuse_oracle(ctx, case)
        finally:
            ctx.case(case, labels=["reused-scheduler", f"stragglers:{case['stragglers']}"], nontrivial=True)
        return
    r = None
    try:
        r = oracle(ctx, case)
    finally:
        labels = [f"fine:{case['fine']}"]
        nt = False
        if r is not None:
            labels.append(f"end:{r.kind}")
            if r.waited:
                labels.append("waited")
            failing = any(s.outcome and s.outcome[0] == "error" for s in r.ctl.submissions)
            if failing:
                labels.append("failing-job")
            if '"nope"' in repr(case["prog"]).replace("'", '"'):
                labels.append("rejected-before-executor")
            nt = bool(r.waited) and (failing or "rejected-before-executor" in labels)
            if r.waited:
                labels.append("waited+release-from-failure" if nt else "waited-only")
        ctx.case(case, labels=labels, nontrivial=nt or bool(r and r.waited))


def check(ctx: Ctx) -> None:
    C.quiet_logs()
    ctx.given(L.cases(), lambda c: run_case(ctx, c), ctx.n(250, 8000))
    ctx.given(reuse_cases(), lambda c: run_case(ctx, c), ctx.n(30, 800))


def replay(ctx: Ctx, case) -> None:
    C.quiet_logs()
    if case.get("reuse"):
        reuse_oracle(ctx, case)
        return
    oracle(ctx, case)
