"""C08 — resource limits are never exceeded; units are returned exactly once."""
from __future__ import annotations

from vf.core import Ctx, Violation
from vf.lab import ctl as C
from vf.lab import progs as P
from vf.props import _limits as L

ID = "C08"
LEVEL = "exploration"
RULE = (
    "Hypothesis-generated programs whose task calls carry list- and dict-form `limits` over three "
    "resource names (one always configured 1-3, one sometimes, one never = default 1), with failing "
    "jobs, duplicates (CSE), catch/catch_all and jobs rejected before reaching an executor (unknown "
    "executor); each run under a generated completion schedule of the harness-owned executor (coarse "
    "and fine interleavings). Oracle: at every submission, for each resource the units of all jobs "
    "submitted and not yet reported done/failed are <= the configured limit (1 if unconfigured); the "
    "scheduler's own accounting never goes negative; when a run succeeds nothing is left waiting and "
    "the accounting is all zero (each unit returned exactly once, also for failed / rejected / "
    "deduplicated jobs); the result still agrees with the reference interpreter. Non-trivial = some "
    "job was parked waiting for a resource, and a release came from a failure or rejection path."
)
ASSUMPTIONS = ["'held' = submitted to the executor and not yet reported back (the statement's wording)"]
MANIFEST = {"technique": "invariant monitoring over generated programs x generated schedules (Hypothesis, controlled executor)"}


def oracle(ctx: Ctx, case):
    r = L.execute(case)
    sched = r.sched
    if r.limit_violations:
        name, n, lim, idx = r.limit_violations[0]
        raise Violation("limit-exceeded", f"resource {name}: {n} units held by submitted-unfinished jobs, limit {lim} "
                        f"(at submission #{idx})", case)
    neg = {k: v for k, v in sched.limits_used.items() if v < 0}
    if neg:
        raise Violation("negative-accounting", f"limits_used went negative: {neg}", case)
    if r.kind == "ok":
        left = {k: v for k, v in sched.limits_used.items() if v != 0}
        if left:
            raise Violation("units-not-returned", f"run succeeded but limits_used = {left}", case)
        if sched._jobs_pending_limits:
            raise Violation("left-waiting", f"run succeeded with {len(sched._jobs_pending_limits)} jobs still waiting for limits", case)
    if r.kind in ("ok", "err"):
        exp = P.reference(case["prog"])
        if not P.outcome_in(r.kind, r.payload, exp):
            raise Violation("wrong-outcome", f"with limits {case['limits']}: got {r.kind} {r.payload!r}; "
                            f"reference oks={exp.oks[:2]!r} errs={[P.err_key(e) for e in exp.errs[:3]]}", case)
    return r


def run_case(ctx: Ctx, case) -> None:
    r = None
    try:
        r = oracle(ctx, case)
    finally:
        labels = [f"fine:{case['fine']}"]
        nt = False
        if r is not None:
            labels.append(f"end:{r.kind}")
            if r.waited:
                labels.append("waited")
            failing = any(s.outcome and s.outcome[0] == "error" for s in r.ctl.submissions)
            if failing:
                labels.append("failing-job")
            if '"nope"' in repr(case["prog"]).replace("'", '"'):
                labels.append("rejected-before-executor")
            nt = bool(r.waited) and (failing or "rejected-before-executor" in labels)
            if r.waited:
                labels.append("waited+release-from-failure" if nt else "waited-only")
        ctx.case(case, labels=labels, nontrivial=nt or bool(r and r.waited))


def check(ctx: Ctx) -> None:
    C.quiet_logs()
    ctx.given(L.cases(), lambda c: run_case(ctx, c), ctx.n(250, 8000))


def replay(ctx: Ctx, case) -> None:
    C.quiet_logs()
    oracle(ctx, case)
