"""C33 — status filters of the call-graph query agree with displayed statuses."""
from __future__ import annotations

from hypothesis import strategies as st

from vf.core import Ctx, Violation
from vf.lab import ctl as C
from vf.lab import dbx
from vf.lab import progs as P
from vf.lab import schedrun
from vf.props import c12

ID = "C33"
LEVEL = "exploration"
RULE = (
    "Databases produced by real executions of generated programs under the harness executor: 1-3 "
    "executions per database drawn from the C01 grammar with errors, the C12 failing families "
    "(uncaught errors at depth, the same failing call reached again through CSE), duplicate calls, "
    "cached re-executions, and executions aborted at a generated step (jobs left running); optionally some "
    "failed jobs are rewritten to the legacy shape (call node with an error result, no end_time). Oracle: "
    "for every status S in RUNNING/CACHED/FAILED/DONE the set of Job ids returned by "
    "CallGraphQuery.filter_job_statuses([S]) equals the set of Job rows whose displayed status "
    "(Job.status) is S, pairs of statuses give the union, and likewise for executions with "
    "filter_execution_statuses over RUNNING/FAILED/DONE. Non-trivial = the database holds >=3 of the "
    "5 job kinds (done, cached, failed, CSE-failed, running) including CSE-failed or running."
)
ASSUMPTIONS = ["'displayed status' is Job.status / Execution.status of the ORM models (what `redun log` prints)"]
MANIFEST = {"technique": "generated databases, set equality between query filters and displayed statuses (Hypothesis, controlled executor)"}


@st.composite
def cases(draw):
    n = draw(st.integers(1, 3))
    runs = []
    for _ in range(n):
        fam = draw(st.sampled_from(["generic", "failing", "refail", "repeat"]))
        if fam == "generic":
            prog = draw(P.programs(max_depth=3, modes=("node", "dnode"), errors=True))
        elif fam == "failing":
            prog = draw(c12.failing_programs())
        elif fam == "refail":
            prog = draw(c12.refail_programs())
        else:
            prog = None      # repeat the previous program (cached replay)
        abort = draw(st.integers(3, 25)) if draw(st.integers(0, 3)) == 0 else None
        runs.append({"prog": prog, "abort": abort, "decisions": draw(st.lists(st.integers(0, 3), max_size=15))})
    if runs[0]["prog"] is None:
        runs[0]["prog"] = ["list", [["task", ["lit", ["int", 1]], {}, {}]]]
    # records as redun wrote them before it set end_time for failed jobs (still found in long-lived or
    # imported repositories): some finished jobs lose their end_time
    return {"runs": runs, "legacy_no_end": draw(st.sampled_from([0, 0, 1, 2]))}


def oracle(ctx: Ctx, case):
    from redun.backends.db import Execution, Job
    from redun.backends.db.query import CallGraphQuery

    backend = dbx.fresh_backend()
    kinds = set()
    try:
        prev = None
        for run in case["runs"]:
            prog = run["prog"] if run["prog"] is not None else prev
            prev = prog
            r = schedrun.run_program(prog, decisions=run["decisions"], backend=backend,
                                     step_budget=run["abort"] if run["abort"] else None)
            try:
                backend.session.rollback()
            except Exception:  # noqa: BLE001
                pass
        session = backend.session
        session.expire_all()
        if case.get("legacy_no_end"):
            from sqlalchemy import text

            done = [j.id for j in session.query(Job).order_by(Job.start_time, Job.task_hash).all()
                    if j.end_time is not None and j.call_hash and j.status == "FAILED"]
            for jid in done[:: max(1, 3 - case["legacy_no_end"])][:case["legacy_no_end"] * 2]:
                session.execute(text("update job set end_time = null where id = :i"), {"i": jid})
                kinds.add("legacy-failed-without-end")
            session.commit()
            session.expire_all()
        jobs = session.query(Job).all()
        by_status = {}
        for j in jobs:
            by_status.setdefault(j.status, set()).add(j.id)
            if j.status == "FAILED" and j.cached:
                kinds.add("cse-failed")
            kinds.add(j.status.lower())
        statuses = ["RUNNING", "CACHED", "FAILED", "DONE"]
        for S in statuses:
            with ctx.no_raise("filter_job_statuses", case):
                got = {j.id for j in CallGraphQuery(session).filter_types(["Job"]).filter_job_statuses([S]).all()}
            want = by_status.get(S, set())
            if got != want:
                extra, missing = got - want, want - got
                detail = []
                for jid in list(extra)[:2]:
                    j = session.get(Job, jid)
                    detail.append(f"filter returns job displayed {j.status} (cached={j.cached}, end={'set' if j.end_time else None})")
                for jid in list(missing)[:2]:
                    j = session.get(Job, jid)
                    detail.append(f"filter misses job displayed {j.status} (cached={j.cached}, end={'set' if j.end_time else None}, call_hash={'set' if j.call_hash else None})")
                disp = sorted({session.get(Job, jid).status for jid in extra}) if extra else []
                raise Violation(f"job-filter:{S}:" + ("returns-" + "+".join(disp) if extra else "misses"),
                                f"filter_job_statuses([{S}]) returned {len(got)} jobs, {len(want)} are displayed {S}: {'; '.join(detail)}", case)
        for a, b in (("FAILED", "DONE"), ("RUNNING", "CACHED")):
            got = {j.id for j in CallGraphQuery(session).filter_types(["Job"]).filter_job_statuses([a, b]).all()}
            want = by_status.get(a, set()) | by_status.get(b, set())
            if got != want:
                raise Violation(f"job-filter:{a}+{b}", f"filter_job_statuses([{a},{b}]) returned {len(got)} jobs, expected {len(want)}", case)
        execs = session.query(Execution).all()
        ex_by = {}
        for e in execs:
            ex_by.setdefault(e.status, set()).add(e.id)
        for S in ["RUNNING", "FAILED", "DONE"]:
            with ctx.no_raise("filter_execution_statuses", case):
                got = {e.id for e in CallGraphQuery(session).filter_types(["Execution"]).filter_execution_statuses([S]).all()}
            want = ex_by.get(S, set())
            if got != want:
                raise Violation(f"execution-filter:{S}", f"filter_execution_statuses([{S}]) returned {len(got)} executions, "
                                f"{len(want)} are displayed {S} (all statuses: { {k: len(v) for k, v in ex_by.items()} })", case)
    finally:
        dbx.discard_backend(backend)
    return kinds


def run_case(ctx: Ctx, case) -> None:
    kinds = set()
    try:
        kinds = oracle(ctx, case)
    finally:
        ctx.case(case, labels=[f"has:{k}" for k in sorted(kinds)],
                 nontrivial=len(kinds) >= 3 and bool(kinds & {"cse-failed", "running"}))


def check(ctx: Ctx) -> None:
    C.quiet_logs()
    ctx.given(cases(), lambda c: run_case(ctx, c), ctx.n(100, 4000))


def replay(ctx: Ctx, case) -> None:
    C.quiet_logs()
    oracle(ctx, case)
