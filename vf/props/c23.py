"""C23 — record transfer between repositories preserves the call graph."""
from __future__ import annotations

from hypothesis import strategies as st

from vf.core import Ctx, Violation
from vf.lab import ctl as C
from vf.lab import dbx, transfer
from vf.lab import progs as P
from vf.lab import schedrun

ID = "C23"
LEVEL = "exploration"
RULE = (
    "Source repositories are built by running 1-3 generated programs (C01 grammar with failures, "
    "duplicates, apply_tags, File results nested in lists, partial-task values; also one shallow-validity "
    "workflow executed twice, of which only the fully cached second execution is transferred) under the harness "
    "executor, followed by a generated history of tag add/update/rm operations (as the CLI issues "
    "them) on executions, jobs and values; with a pre-sync the history is split around a first "
    "transfer, so that the later transfer carries only newer edits of tags the destination already holds. A generated root selection (all executions or a subset of "
    "one or two) is transferred into an empty or a previously synced repository by push/pull "
    "(RedunClient._sync_records) or by export -> JSON lines -> import, once or twice, and back. "
    "Oracle over the primary-key-normalised dumps of Execution, Job, CallNode, CallEdge, Argument, "
    "ArgumentResult, Value, File, Task, Subvalue, Tag, TagEdit: (1) every destination row equals the "
    "source row with that key (nothing invented, no column changed, Tag.is_current included); (2) the "
    "destination is referentially closed (PRAGMA foreign_key_check empty); (3) everything reachable "
    "from the roots by the ownership relations (execution -> jobs -> call node -> arguments / "
    "upstream links / result and argument values -> subvalues, File/Task details; child jobs and "
    "child call edges; tags with their edit history on all of these) is present; (4) with all "
    "executions as roots the Execution/Job/CallNode/CallEdge/Argument/ArgumentResult tables are equal; (5) repeating the transfer returns 0 and changes "
    "nothing, transferring back changes nothing in the source. Non-trivial = >=2 executions, a tag "
    "with edit history, and a partial root selection or a repeated transfer."
)
ASSUMPTIONS = ["the cache clause of the statement (a shallow hit in the destination after a subtree edit) is checked by C03's transfer histories"]
MANIFEST = {"technique": "generated repositories x root selections x transfer routes, dump comparison + reachability closure (Hypothesis)"}

TABLES = {
    "execution": ("select id, args, job_id from execution", 1),
    "job": ("select id, start_time, end_time, task_hash, cached, call_hash, parent_id, execution_id from job", 1),
    "call_node": ("select call_hash, task_name, task_hash, args_hash, value_hash from call_node", 1),
    "call_edge": ("select parent_id, child_id, call_order from call_edge", 3),
    "argument": ("select arg_hash, call_hash, value_hash, arg_position, arg_key from argument", 1),
    "argument_result": ("select arg_hash, result_call_hash from argument_result", 2),
    "value": ("select value_hash, type, format, value from value", 1),
    "file": ("select value_hash, path from file", 1),
    "task": ("select hash, name, namespace, source from task", 1),
    "subvalue": ("select value_hash, parent_value_hash from subvalue", 2),
    "tag": ("select tag_hash, entity_type, entity_id, key, value, is_current from tag", 1),
    "tag_edit": ("select parent_id, child_id from tag_edit", 2),
}


def full_dump(backend) -> dict:
    from sqlalchemy import text

    out = {}
    with backend.engine.connect() as conn:
        for name, (sql, nkey) in TABLES.items():
            rows = {}
            for r in conn.execute(text(sql)).fetchall():
                r = tuple(r)
                rows[r[:nkey]] = r
            out[name] = rows
    return out


@st.composite
def cases(draw):
    nprog = draw(st.integers(2, 3))
    progs = []
    for i in range(nprog):
        kind = draw(st.sampled_from(["generic", "generic", "files", "tags", "partial", "dataflow", "dataflow"]))
        if kind == "generic":
            progs.append(draw(P.programs(max_depth=3, modes=("node", "dnode"), errors=True)))
        elif kind == "dataflow":
            from vf.props import c21

            progs.append(draw(c21.dataflow_programs()))
        elif kind == "files":
            progs.append(["list", [["mkfile", f"f{i}a.txt", draw(st.integers(0, 9))], ["task", ["list", [["mkfile", f"f{i}b.txt", 1], ["mkfile", f"f{i}c.txt", 2], ["lit", ["int", 2]]]], {}, {}]]])
        elif kind == "tags":
            progs.append(["list", [["task", ["tags", ["lit", ["int", 10 + i]], [["tk", i]], [["jk", f"v{i}"]]], {}, {"tags": [["ot", "x"]]}]]])
        else:
            progs.append(["list", [["task", ["mkpartial", ["op", "add", ["var", "x"], ["lit", ["int", i]]], {}], {}, {}],
                                   ["callv", ["mkpartial", ["var", "x"], {}], [["lit", ["int", 3]]]]]])
    tagops = draw(st.lists(st.tuples(st.sampled_from(["add", "add", "update", "update", "rm", "rmkey"]), st.integers(0, 2),
                                     st.sampled_from(["k0", "k1"]), st.sampled_from([1, "a", None, [1, 2]])), min_size=2, max_size=8))
    # roots are sets of executions (the statement's domain; a lone job's parent and execution are
    # deliberately not "reachable" from it)
    roots = draw(st.sampled_from(["all", "all", "subset", "subset2"]))
    route = draw(st.sampled_from(["push", "export"]))
    if draw(st.integers(0, 3)) == 0:
        # the same shallow-validity workflow executed twice: the second execution consists of one
        # cached job whose call node's subtree is reachable through call edges only; only that
        # execution is transferred
        v = draw(st.integers(0, 3))
        # (the tasks beneath the shallow call are other tasks than the ones the cached jobs name)
        deep = ["task", ["op", "add", ["task", ["task", ["lit", ["int", v]], {}, {"t": "xnode"}], {}, {"t": "onode"}], ["lit", ["int", 1]]],
                {}, {"check_valid": "shallow"}]
        prog = ["list", [deep]]
        return {"progs": [prog, prog], "tagops": [list(t) for t in tagops][:2], "roots": "subset", "root_pick": 1,
                "route": route, "presync": False, "repeat": draw(st.booleans())}
    return {"progs": progs, "tagops": [list(t) for t in tagops], "roots": roots, "root_pick": draw(st.integers(0, 10)),
            "route": route, "presync": draw(st.booleans()), "repeat": draw(st.booleans())}


def do_transfer(route, src, dst, root_ids):
    if route == "push":
        return transfer.sync(src, dst, root_ids)
    return transfer.import_lines(dst, transfer.export_lines(src, root_ids))


def closure(src_dump, root_ids) -> dict:
    """Keys that must be present in the destination, per table, by the ownership relations."""
    need = {t: set() for t in TABLES}
    jobs = src_dump["job"]
    execs = src_dump["execution"]
    job_children = {}
    for (jid,), r in jobs.items():
        job_children.setdefault(r[6], []).append(jid)
    todo_jobs = []
    for rid in root_ids:
        if (rid,) in execs:
            need["execution"].add((rid,))
            todo_jobs += [jid for (jid,), r in jobs.items() if r[7] == rid]
        elif (rid,) in jobs:
            todo_jobs.append(rid)
    seen_jobs = set()
    call_nodes = set()
    while todo_jobs:
        j = todo_jobs.pop()
        if j in seen_jobs:
            continue
        seen_jobs.add(j)
        need["job"].add((j,))
        r = jobs[(j,)]
        if r[5]:
            call_nodes.add(r[5])
        todo_jobs += job_children.get(j, [])
    edges_by_parent = {}
    for k, r in src_dump["call_edge"].items():
        edges_by_parent.setdefault(r[0], []).append(r)
    args_by_call = {}
    for k, r in src_dump["argument"].items():
        args_by_call.setdefault(r[1], []).append(r)
    ar_by_arg = {}
    for k, r in src_dump["argument_result"].items():
        ar_by_arg.setdefault(r[0], []).append(r)
    values = set()
    todo_calls = list(call_nodes)
    seen_calls = set()
    while todo_calls:
        c = todo_calls.pop()
        if c in seen_calls or (c,) not in src_dump["call_node"]:
            continue
        seen_calls.add(c)
        need["call_node"].add((c,))
        row = src_dump["call_node"][(c,)]
        values.add(row[4])
        values.add(row[2])          # the task is a value too
        for e in edges_by_parent.get(c, []):
            need["call_edge"].add((e[0], e[1], e[2]))
            todo_calls.append(e[1])
        for a in args_by_call.get(c, []):
            need["argument"].add((a[0],))
            values.add(a[2])
            for ar in ar_by_arg.get(a[0], []):
                need["argument_result"].add((ar[0], ar[1]))
                todo_calls.append(ar[1])
    sub_by_parent = {}
    for k, r in src_dump["subvalue"].items():
        sub_by_parent.setdefault(r[1], []).append(r)
    todo_vals = list(values)
    seen_vals = set()
    while todo_vals:
        v = todo_vals.pop()
        if v in seen_vals or (v,) not in src_dump["value"]:
            continue
        seen_vals.add(v)
        need["value"].add((v,))
        if (v,) in src_dump["file"]:
            need["file"].add((v,))
        if (v,) in src_dump["task"]:
            need["task"].add((v,))
        for s in sub_by_parent.get(v, []):
            need["subvalue"].add((s[0], s[1]))
            todo_vals.append(s[0])
    # tags (with their whole edit history) on every transferred entity
    entities = {k[0] for t in ("execution", "job", "call_node", "value") for k in need[t]}
    tag_rows = src_dump["tag"]
    by_entity = {}
    for k, r in tag_rows.items():
        by_entity.setdefault(r[2], []).append(r[0])
    todo_tags = [t for e in entities for t in by_entity.get(e, [])]
    edits = list(src_dump["tag_edit"].values())
    seen_tags = set()
    while todo_tags:
        t = todo_tags.pop()
        if t in seen_tags:
            continue
        seen_tags.add(t)
        need["tag"].add((t,))
    return need


def oracle(ctx: Ctx, case):
    import os

    import vf_tasks
    from redun.backends.base import TagEntity
    from redun.backends.db import Execution, Job, Value

    src = dbx.fresh_backend()
    dst = dbx.fresh_backend()
    vf_tasks.FILE_ROOT["dir"] = ctx.fresh_dir("c23files")
    info = {"execs": 0, "edits": 0}
    try:
        for prog in case["progs"]:
            schedrun.run_program(prog, decisions=[], backend=src)
        s = src.session
        s.expire_all()
        # deterministic order (ids are random uuids): executions and jobs by start time
        jobs = s.query(Job).order_by(Job.start_time, Job.task_hash).all()
        start = {j.id: (j.start_time, n) for n, j in enumerate(jobs)}
        exec_ids = [e.id for e in sorted(s.query(Execution).all(), key=lambda e: start.get(e.job_id, (None, 1 << 30))[1])]
        info["execs"] = len(exec_ids)
        ents = []
        for e in exec_ids[:2]:
            ents.append((TagEntity.Execution, e))
        for j in jobs[:2]:
            ents.append((TagEntity.Job, j.id))
        # (builtin values only: the hash of a File value contains an mtime, so its place in the
        # hash order would differ from one evaluation of the case to the next)
        for v in s.query(Value).filter(Value.type.like("builtins.%")).order_by(Value.value_hash).limit(2).all():
            ents.append((TagEntity.Value, v.value_hash))
        def apply_tagops(ops):
            for op, ei, key, val in ops:
                if not ents:
                    break
                tag_op(op, ei, key, val)

        def tag_op(op, ei, key, val):
            et, eid = ents[ei % len(ents)]
            if op == "add":
                src.record_tags(et, eid, [(key, val)], new=True)
            elif op == "update":
                src.record_tags(et, eid, [(key, val)], update=True)
            elif op == "rm":
                src.delete_tags(eid, [(key, val)])
            else:
                src.delete_tags(eid, [], keys=[key])

        # with a pre-sync, part of the tag history is transferred first (all executions, so that
        # the tagged entities travel too) and the tags are then edited further in the source: the
        # second transfer carries only the newer edits and must supersede what is already there
        ops = case["tagops"]
        if case["presync"] and exec_ids:
            half = len(ops) // 2
            apply_tagops(ops[:half])
            do_transfer(case["route"], src, dst, exec_ids if len(ops) % 2 else exec_ids[:1])
            apply_tagops(ops[half:])
        else:
            apply_tagops(ops)
        before = full_dump(src)
        info["edits"] = len(before["tag_edit"])
        split = bool(case["presync"] and exec_ids and len(ops) // 2 > 0)
        # (after a split history the final transfer covers all executions: a destination that
        # received a tag earlier legitimately keeps its old status if the entity's execution is
        # not part of the later transfer)
        if case["roots"] == "all" or not exec_ids or split:
            root_ids = exec_ids
            roots_arg = None if case["root_pick"] % 2 else exec_ids
        elif case["roots"] == "subset":
            k = case["root_pick"] % len(exec_ids)
            root_ids = roots_arg = exec_ids[k:k + 1]
        else:
            k = case["root_pick"] % len(exec_ids)
            root_ids = roots_arg = (exec_ids + exec_ids)[k:k + 2]
            root_ids = roots_arg = sorted(set(root_ids))
        with ctx.no_raise("transfer", case):
            n1 = do_transfer(case["route"], src, dst, roots_arg)
        after_src = full_dump(src)
        if after_src != before:
            raise Violation("source-changed", "transferring records changed the source repository", case)
        d = full_dump(dst)
        # (1) nothing invented, nothing altered
        for t, rows in d.items():
            for k, r in rows.items():
                if k not in before[t]:
                    raise Violation(f"invented-row:{t}", f"destination has a {t} row {k} that the source does not have", case)
                if before[t][k] != r:
                    cols = [i for i, (a, b) in enumerate(zip(before[t][k], r)) if a != b]
                    raise Violation(f"row-differs:{t}", f"{t} row {k}: columns {cols} differ: source {before[t][k]} destination {r}", case)
        # (2) referentially closed
        fk = dbx.fk_check(dst)
        if fk:
            raise Violation("destination-dangling", f"destination has dangling references: {fk[:3]}", case)
        # (3) reachability closure
        need = closure(before, root_ids)
        for t, keys in need.items():
            missing = [k for k in keys if k not in d[t]]
            if missing:
                raise Violation(f"missing-rows:{t}", f"{len(missing)} {t} rows reachable from the roots were not transferred, e.g. {missing[:2]}", case)
        # (4) all roots: equal dumps
        if case["roots"] == "all" or split:
            # (values that only the single-reduction cache — the Evaluation table — refers to are
            # not part of the call graph and are not transferred; value tables are covered by (3))
            for t in ("execution", "job", "call_node", "call_edge", "argument", "argument_result"):
                if d[t] != before[t]:
                    only = [k for k in before[t] if k not in d[t]][:2]
                    raise Violation(f"full-transfer-differs:{t}", f"all executions transferred, yet {t} differs: missing {only}", case)
        # (5) idempotence and the way back
        if case["repeat"]:
            with ctx.no_raise("transfer", case):
                n2 = do_transfer(case["route"], src, dst, roots_arg)
            if n2 != 0:
                raise Violation("repeat-adds", f"repeating the transfer reported {n2} new records", case)
            if full_dump(dst) != d:
                raise Violation("repeat-changes", "repeating the transfer changed the destination", case)
            if case["roots"] == "all" or split:
                n3 = do_transfer(case["route"], dst, src, None)
                if n3 != 0 or full_dump(src) != before:
                    raise Violation("roundtrip-changes-source", f"transferring back reported {n3} new records / changed the source", case)
    finally:
        dbx.discard_backend(src)
        dbx.discard_backend(dst)
    return info


def run_case(ctx: Ctx, case) -> None:
    info = None
    try:
        info = oracle(ctx, case)
    finally:
        nt = bool(info and info["execs"] >= 2 and info["edits"] and (case["roots"] != "all" or case["repeat"]))
        ctx.case(case, labels=[f"roots:{case['roots']}", f"route:{case['route']}", f"repeat:{case['repeat']}", f"presync:{case['presync']}"]
                 + (["tag-edits"] if info and info["edits"] else []), nontrivial=nt)


def check(ctx: Ctx) -> None:
    C.quiet_logs()
    ctx.given(cases(), lambda c: run_case(ctx, c), ctx.n(160, 1600))


def replay(ctx: Ctx, case) -> None:
    C.quiet_logs()
    oracle(ctx, case)
