"""C17 — task hashes track code identity (generated module files, one mutation per pair)."""
from __future__ import annotations

import copy
import importlib.util
import json
import linecache
import os
import sys

from hypothesis import strategies as st

from vf.core import Ctx, StopCheck, Violation

ID = "C17"
LEVEL = "exploration"
RULE = (
    "Hypothesis-generated task programs rendered to real module files (sync and async def, @task bare / "
    "single-line / multi-line arguments, stacked identity decorators and comment lines between decorator and "
    "def, nested helper function in the body, module level or inside a space- or tab-indented factory "
    "function, namespace by argument or module variable, name= alias, version, hash_includes, definition-time "
    "options, 0-2 wraps_task layers) imported with importlib under unique module names against a fresh "
    "TaskRegistry, observed as Task.hash of the task itself, of task.options(...), or of task.partial(...). "
    "Each case applies exactly one mutation: rename / alias / namespace (arg or module var) / body edit / "
    "version set / version changed / hash_includes added, removed, changed / call-time options added or "
    "changed / wrapper argument changed / partial bound args changed => hash must change; definition-time "
    "option changed, decorator reformatted (multi-line, comments, extra decorators), hash_includes reordered, "
    "body edit of a versioned task, plain reload under another module name => hash must stay. For wrapped "
    "tasks the mutation is applied to the innermost task and observed on the visible wrapper. Non-trivial = "
    "program with >= 2 of: extra decorators, multi-line decorator, async, wrapper layer, non-plain view, "
    "nested function, factory indentation."
)
ASSUMPTIONS = [
    "hash_includes / bound argument literals 'differ' when they are different ints, strs or int lists",
    "a module-variable namespace change is only applied when no namespace argument overrides it",
]
MANIFEST = {"technique": "metamorphic relations over generated module files (Hypothesis)"}

CHANGE, SAME = "change", "same"
_REMOVE = object()

LITS = [0, 1, 2, 7, "a", "b", "v2", [1, 2], [2, 1], [], ["x"]]
OPT_POOL = {
    "memory": [1, 2, 4],
    "vcpus": [1, 2],
    "executor": ["default", "batch"],
    "limits": [{"db": 1}, {"db": 2}],
    "config_args": [["y"], []],
    "check_valid": ["full", "shallow"],
}
CALL_OPTS = [{"memory": 2}, {"memory": 3}, {"executor": "batch"}, {"memory": 2, "vcpus": 4}, {"limits": {"db": 1}}]

IDENTITY_MUTS = ["rename", "alias", "ns_arg", "ns_module", "body", "version_set", "version_change",
                 "inc_add", "inc_remove", "inc_change", "call_options", "wrap_arg", "partial_args"]
NEUTRAL_MUTS = ["opt_change", "deco_format", "inc_reorder", "body_versioned", "reload"]


# ---------------------------------------------------------------- generator
@st.composite
def cases(draw, allow_async=False, indents=("module", "space")):
    mut = draw(st.sampled_from(IDENTITY_MUTS + NEUTRAL_MUTS + ["opt_change", "deco_format"]))
    is_async = allow_async and draw(st.booleans() if allow_async != "always" else st.just(True))
    opts = {}
    for k in draw(st.lists(st.sampled_from(sorted(OPT_POOL)), unique=True, max_size=3)):
        opts[k] = draw(st.sampled_from(OPT_POOL[k]))
    if is_async:
        opts.pop("check_valid", None)
        opts.update(draw(st.sampled_from([{"cache": False}, {"cache": True, "check_valid": "shallow"}])))
    elif draw(st.booleans()):
        opts["cache"] = draw(st.booleans())
    P = {
        "name": draw(st.sampled_from(["t0", "job", "step_2"])),
        "alias": draw(st.sampled_from([None, None, "alias1"])),
        "ns": draw(st.sampled_from([None, "nsa", "pkg.sub"])),
        "modns": draw(st.sampled_from([None, "mna"])),
        "async": bool(is_async),
        "version": draw(st.sampled_from([None, None, "1", "2.0"])),
        "body": draw(st.integers(0, 3)),
        "nested": draw(st.booleans()),
        "includes": draw(st.one_of(st.none(), st.lists(st.sampled_from(LITS), min_size=1, max_size=3))),
        "opts": opts,
        "style": draw(st.sampled_from(["single", "multi", "bare"])),
        "extra": draw(st.lists(st.sampled_from(["keep", "tag:x", "tag:y"]), max_size=2)),
        "comment": draw(st.booleans()),
        "indent": draw(st.sampled_from(list(indents))),
        "wrap": draw(st.sampled_from([0, 0, 1, 2])),
        "wrap_arg": draw(st.integers(0, 2)),
    }
    view = draw(st.sampled_from([["plain"], ["plain"], ["options", draw(st.sampled_from(CALL_OPTS))],
                                 ["partial", draw(st.lists(st.sampled_from(LITS), max_size=2)),
                                  draw(st.sampled_from([{}, {"y": 1}, {"y": "a"}]))]]))
    par = {"i": draw(st.integers(0, 30)), "j": draw(st.integers(0, 30))}
    # preconditions of the chosen mutation
    if mut in ("version_change", "body_versioned") and P["version"] is None:
        P["version"] = "1"
    if mut in ("version_set", "body"):
        P["version"] = None
    if mut in ("inc_change", "inc_remove") and not P["includes"]:
        P["includes"] = [draw(st.sampled_from(LITS))]
    if mut == "inc_reorder":
        xs = draw(st.lists(st.sampled_from(LITS), min_size=2, max_size=4, unique_by=json.dumps))
        P["includes"] = xs
    if mut == "inc_add":
        P["includes"] = None
    if mut == "ns_module":
        P["ns"] = None
    if mut == "wrap_arg" and P["wrap"] == 0:
        P["wrap"] = 1
    if mut == "partial_args" and view[0] != "partial":
        view = ["partial", [draw(st.sampled_from(LITS))], {}]
    if mut == "call_options" and view[0] == "partial" and draw(st.booleans()):
        view = ["plain"]
    # (options views ARE combined with hash_includes and wrapper layers: a task with call-time
    # overrides is a task, and the statement makes no exception for it)
    return {"prog": P, "view": view, "mut": mut, "par": par}


# ---------------------------------------------------------------- mutation
def _other(pool, cur, i):
    cands = [x for x in pool if json.dumps(x, sort_keys=True) != json.dumps(cur, sort_keys=True)]
    return cands[i % len(cands)]


def mutate(case):
    """-> (prog2, view2, expectation)."""
    P = copy.deepcopy(case["prog"])
    V = copy.deepcopy(case["view"])
    mut, i, j = case["mut"], case["par"]["i"], case["par"]["j"]
    exp = CHANGE if mut in IDENTITY_MUTS else SAME
    if mut == "rename":
        P["name"] = P["name"] + "_r"
        if P["alias"]:
            # the visible name is the alias: renaming the function still edits the source
            if P["version"] is not None:
                exp = SAME
    elif mut == "alias":
        P["alias"] = _other(["alias1", "alias2", "other"], P["alias"], i)
    elif mut == "ns_arg":
        P["ns"] = _other(["nsa", "nsb", "pkg.sub", "pkg.sub2"], P["ns"], i)
        if P["ns"] == effective_ns(case["prog"]):
            P["ns"] = "zz_" + P["ns"]
    elif mut == "ns_module":
        P["modns"] = _other(["mna", "mnb"], P["modns"], i)
    elif mut in ("body", "body_versioned"):
        if i % 3 == 0:
            P["nested"] = not P["nested"]
        else:
            P["body"] = _other([0, 1, 2, 3], P["body"], j)
    elif mut == "version_set":
        P["version"] = ["1", "2.0"][i % 2]
    elif mut == "version_change":
        P["version"] = _other(["1", "2.0", "3", "1.0"], P["version"], i)
    elif mut == "inc_add":
        P["includes"] = [LITS[i % len(LITS)]] + ([LITS[j % len(LITS)]] if j % 2 else [])
    elif mut == "inc_remove":
        if len(P["includes"]) > 1 and i % 2:
            P["includes"].pop(j % len(P["includes"]))
        else:
            P["includes"] = None
    elif mut == "inc_change":
        k = j % len(P["includes"])
        P["includes"][k] = _other(LITS, P["includes"][k], i)
        if sorted(map(json.dumps, P["includes"])) == sorted(map(json.dumps, case["prog"]["includes"])):
            P["includes"][k] = "fresh-value"     # a swap that rebuilt the same multiset is not a change
    elif mut == "inc_reorder":
        xs = P["includes"]
        r = 1 + i % (len(xs) - 1)
        P["includes"] = xs[r:] + xs[:r]
    elif mut == "opt_change":
        edits = []          # (key, new value) / (key, _REMOVE) / ("$mode", None)
        pool = dict(OPT_POOL)
        if P["async"]:
            pool.pop("check_valid")      # async tasks: cache/check_valid only move together ("$mode")
            edits.append(("$mode", None))
        else:
            pool["cache"] = [True, False]
        for k in sorted(pool):
            for v in pool[k]:
                if k not in P["opts"] or P["opts"][k] != v:
                    edits.append((k, v))
            if k in P["opts"]:
                edits.append((k, _REMOVE))
        k, v = edits[i % len(edits)]
        if k == "$mode":
            if P["opts"].get("cache") is False:
                P["opts"].update({"cache": True, "check_valid": "shallow"})
            else:
                P["opts"].pop("check_valid", None)
                P["opts"]["cache"] = False
        elif v is _REMOVE:
            P["opts"].pop(k)
        else:
            P["opts"][k] = v
    elif mut == "deco_format":
        how = i % 4
        if how == 0:
            P["style"] = _other(["single", "multi"], P["style"], j)
        elif how == 1:
            P["comment"] = not P["comment"]
        elif how == 2:
            P["extra"] = P["extra"] + [["keep", "tag:x", "tag:z"][j % 3]]
        else:
            if P["extra"]:
                P["extra"] = P["extra"][1:]
            else:
                P["style"] = _other(["single", "multi"], P["style"], j)
    elif mut == "call_options":
        if V[0] == "plain":
            V = ["options", CALL_OPTS[i % len(CALL_OPTS)]]
        elif V[0] == "options":
            V = ["options", _other(CALL_OPTS, V[1], i)]
        else:  # partial -> partial of the task with options
            V = ["partial_options", V[1], V[2], CALL_OPTS[i % len(CALL_OPTS)]]
    elif mut == "wrap_arg":
        P["wrap_arg"] = P["wrap_arg"] + 1 + i % 3
    elif mut == "partial_args":
        args, kw = list(V[1]), dict(V[2])
        how = i % 3
        if how == 0 and args:
            k = j % len(args)
            args[k] = _other(LITS, args[k], i // 3)
        elif how == 1:
            args.append(LITS[j % len(LITS)])
        else:
            kw["y"] = _other([1, "a", 2, 5], kw.get("y", "unbound"), j)
        V = ["partial", args, kw]
    elif mut == "reload":
        pass
    else:
        raise AssertionError(mut)
    return P, V, exp


def effective_ns(P):
    if P["ns"] is not None:
        return P["ns"]
    if P["modns"] is not None:
        return P["modns"]
    return ""


# ---------------------------------------------------------------- rendering
HEADER = '''\
# generated by vf.props.c17 -- scratch module, safe to delete
from redun import task
from redun.task import wraps_task
{modns}

def keep(f):
    return f


def tag(label):
    def deco(f):
        return f
    return deco


def layer(arg):
    @wraps_task(wrapper_hash_includes=[arg])
    def _layer(inner_task):
        def do_layer(*args, **kwargs):
            return inner_task.func(*args, **kwargs)

        return do_layer

    return _layer

'''


def task_args(P) -> list:
    args = []
    if P["alias"]:
        args.append(f"name={P['alias']!r}")
    if P["ns"] is not None:
        args.append(f"namespace={P['ns']!r}")
    if P["version"] is not None:
        args.append(f"version={P['version']!r}")
    if P["includes"] is not None:
        args.append(f"hash_includes={P['includes']!r}")
    for k, v in P["opts"].items():
        args.append(f"{k}={v!r}")
    return args


def render(P) -> str:
    ind = {"module": "", "space": "    ", "tab": "\t"}[P["indent"]]
    unit = "\t" if P["indent"] == "tab" else "    "
    lines = []
    for n in range(P["wrap"]):
        lines.append(f"@layer({P['wrap_arg'] + n})")
    args = task_args(P)
    style = P["style"]
    if style == "bare" and (args or P["async"]):
        style = "single"
    if style == "bare":
        lines.append("@task")
    elif style == "single" or not args:
        lines.append(f"@task({', '.join(args)})")
    else:
        lines.append("@task(")
        for a in args:
            lines.append(f"{unit}{a},")
        lines.append(")")
    if P["comment"]:
        lines.append("# a comment between the decorators and the function")
    for e in P["extra"]:
        lines.append("@keep" if e == "keep" else f"@tag({e.split(':')[1]!r})")
    lines.append(f"{'async ' if P['async'] else ''}def {P['name']}(x, y=0):")
    if P["nested"]:
        lines += [f"{unit}def helper(v):", f"{unit}{unit}return v * 2", ""]
    if P["body"] >= 2:
        lines.append(f"{unit}# variant {P['body']}")
    lines.append(f"{unit}return (x, y, {P['body'] % 2})")
    src = HEADER.format(modns=f"\nredun_namespace = {P['modns']!r}\n" if P["modns"] is not None else "")
    if P["indent"] == "module":
        src += "\n".join(lines) + "\n\n\nT = " + P["name"] + "\n"
    else:
        src += "def make():\n" + "\n".join((ind + ln) if ln else ln for ln in lines)
        src += f"\n{ind}return {P['name']}\n\n\nT = make()\n"
    return src


# ---------------------------------------------------------------- loading
_SEQ = [0]


def load_hash(ctx: Ctx, P, view, case) -> tuple:
    """Write + import the program against a fresh registry; returns (hash of the viewed task, inner source)."""
    import redun  # noqa: F401

    RT = sys.modules["redun.task"]      # (the attribute redun.task is the decorator function)
    _SEQ[0] += 1
    d = os.path.join(ctx.scratch(), "c17")
    os.makedirs(d, exist_ok=True)
    modname = f"vf_c17_m{os.getpid()}_{_SEQ[0]}"
    path = os.path.join(d, modname + ".py")
    with open(path, "w") as f:
        f.write(render(P))
    saved = RT._task_registry
    RT._task_registry = RT.TaskRegistry()
    try:
        spec = importlib.util.spec_from_file_location(modname, path)
        mod = importlib.util.module_from_spec(spec)
        sys.modules[modname] = mod
        try:
            with ctx.no_raise("importing the generated task module", case):
                spec.loader.exec_module(mod)
                T = mod.T
                inner = T.inner_task
                if view[0] == "plain":
                    t = T
                elif view[0] == "options":
                    t = T.options(**view[1])
                elif view[0] == "partial":
                    t = T.partial(*view[1], **view[2])
                elif view[0] == "partial_options":
                    t = T.partial(*view[1], **view[2]).options(**view[3])
                else:
                    raise AssertionError(view)
                return t.hash, inner.source, T.fullname
        finally:
            sys.modules.pop(modname, None)
    finally:
        RT._task_registry = saved
        try:
            os.remove(path)
        except OSError:
            pass
        if _SEQ[0] % 200 == 0:
            linecache.clearcache()


def features(P, view) -> list:
    f = []
    if P["extra"]:
        f.append("extra-decorators")
    if P["style"] == "multi" and task_args(P):
        f.append("multi-line")
    if P["async"]:
        f.append("async")
    if P["wrap"]:
        f.append(f"wrap{P['wrap']}")
    if view[0] != "plain":
        f.append("view:" + view[0])
    if P["nested"]:
        f.append("nested-func")
    if P["indent"] != "module":
        f.append("indent:" + P["indent"])
    return f


def oracle(ctx: Ctx, case) -> None:
    P, view = case["prog"], case["view"]
    P2, view2, exp = mutate(case)
    h1, src1, full1 = load_hash(ctx, P, view, case)
    h2, src2, full2 = load_hash(ctx, P2, view2, case)
    mut = case["mut"]
    vk = "" if view[0] == "plain" else ":" + view[0]
    wk = ":wrapped" if P["wrap"] else ""
    if exp == CHANGE and h1 == h2:
        raise Violation(f"identity-unchanged:{mut}{wk}{vk}",
                        f"mutation {mut} ({describe(P, view, P2, view2)}) left the hash of {full1} -> {full2} at {h1[:12]}",
                        case)
    if exp == SAME and h1 != h2:
        # does the hashed source still contain decorator lines?
        first = src2.lstrip().split("\n", 1)[0] if src2 else ""
        if first.startswith("@") or src1.lstrip().startswith("@"):
            defline = next((ln for ln in src2.split("\n") if ln.lstrip().startswith(("def ", "async def "))), "")
            why = []
            if defline.lstrip().startswith("async def"):
                why.append("async-def")
            if "\t" in defline[: len(defline) - len(defline.lstrip())]:
                why.append("tab-indent")
            raise Violation(f"decorator-in-source:{'+'.join(why) or 'other'}",
                            f"neutral mutation {mut} ({describe(P, view, P2, view2)}) changed the hash of {full1} "
                            f"{h1[:12]} -> {h2[:12]}: the task source still starts with its decorator lines: "
                            f"{src2[:160]!r}", case)
        raise Violation(f"neutral-changed:{mut}{wk}{vk}",
                        f"neutral mutation {mut} ({describe(P, view, P2, view2)}) changed the hash of {full1} "
                        f"{h1[:12]} -> {h2[:12]}", case)


def describe(P, view, P2, view2) -> str:
    diffs = [f"{k}: {P[k]!r} -> {P2[k]!r}" for k in P if P[k] != P2[k]]
    if view != view2:
        diffs.append(f"view: {view!r} -> {view2!r}")
    return "; ".join(diffs) or "no textual change"


def run_case(ctx: Ctx, case) -> None:
    P, view = case["prog"], case["view"]
    feats = features(P, view)
    ctx.case(case, labels=[f"mut:{case['mut']}"] + feats + [f"style:{P['style']}"]
             + (["versioned"] if P["version"] else []) + (["includes"] if P["includes"] else []),
             nontrivial=len(feats) >= 2)
    oracle(ctx, case)


def check(ctx: Ctx) -> None:
    failed = False
    phases = [
        ("sync", cases(allow_async=False, indents=("module", "module", "space")), ctx.n(700, 48000)),
        ("async", cases(allow_async="always", indents=("module", "module", "space")), ctx.n(250, 16000)),
        ("tab-indent", cases(allow_async=True, indents=("tab",)), ctx.n(150, 8000)),
    ]
    for name, strat, n in phases:
        try:
            ctx.given(strat, lambda c: run_case(ctx, c), n)
        except StopCheck:
            # report every phase (they exercise different definition forms) before stopping
            failed = True
            ctx.notes.append(f"phase {name} reported a violation.")
    if failed:
        raise StopCheck()


def replay(ctx: Ctx, case) -> None:
    oracle(ctx, case)
