"""C16 — value hashes depend only on the value (hash seeds, processes, set insertion order)."""
from __future__ import annotations

import atexit
import json
import os
import subprocess
import sys
import tempfile

from hypothesis import strategies as st

from vf.core import REPO, REPO_REDUN, VERIF_DIR, Ctx, HarnessError, Violation
from vf.lab import values as V

ID = "C16"
LEVEL = "exploration"
SEEDS = ["0", "1", "2", "3", "12345"]
RULE = (
    "Hypothesis-generated L1 value specs (scalars, big ints, floats, unicode/bytes, nested list/tuple/"
    "dict/named tuple/dataclass, sets and frozensets of ints (incl. colliding hashes such as 0/8/2**61-1), "
    "strs, bytes, floats, (int,str) tuples and unorderable int/str/bytes/None mixes, frozenset/tuple dict keys) plus a permutation index. Each spec is "
    "built from its JSON form and hashed with get_type_registry().get_hash in five worker interpreters "
    "started with PYTHONHASHSEED=0,1,2,3,12345 (recycled every 500 cases, 1000 in the thorough tier, so each batch meets fresh "
    "interpreters) and in the harness process, each time with the listed and with a permuted set "
    "insertion order: all 12 hashes of one spec must be equal. A spec containing a set below the top "
    "level or any frozenset is additionally checked in a canonicalised form (those nodes replaced by "
    "sorted tagged tuples) which must be stable; if only the raw form is unstable the failure is "
    "attributed to the node class that reproduces it alone (unsorted-set:nested-set / nested-frozenset / "
    "toplevel-frozenset). 40 pinned hashes recorded from the unchanged tree must still be produced "
    "(hashes persist in the database across processes). Non-trivial = spec with a set/frozenset of >= 2 "
    "str/bytes elements, or a dataclass, or depth >= 3."
)
ASSUMPTIONS = [
    "object identity structure (which affects pickle memoisation) is the same in every interpreter: values are "
    "always built by vf.lab.values.build from the JSON text of the spec",
    "set elements are ints, strs, bytes, floats or (int, str) tuples of one kind, or an int/str/bytes/None mix "
    "(unorderable; Set.get_hash then orders by element hash)",
    "pinned hashes were recorded under CPython 3.12 from the unchanged tree; they change only with a deliberate "
    "hash-scheme migration",
    "PYTHONHASHSEED=random is not used (not replayable); five fixed seeds stand in for it",
]
MANIFEST = {"technique": "differential testing across interpreters/hash seeds/insertion orders (Hypothesis + worker processes)"}

RECYCLE = 500
WORKER = os.path.join(VERIF_DIR, "vf", "lab", "hashworker.py")


# ---------------------------------------------------------------- generator
_strs = st.sampled_from(["", "a", "b", "c", "ab", "dd", "eee", "k", "é", "x" * 20])
_coll_ints = st.sampled_from([0, 8, 16, 24, 32, 64, -1, -2, 1, 9, 2**61 - 1, 2**61, 2**62 - 2, 10**20])


def _opaque(strategy):
    """st.one_of flattens nested one_ofs (which skews the mix towards whichever group has most branches)."""
    return st.tuples(strategy).map(lambda t: t[0])      # (.map/.filter alone are still flattened)


def _sets(kind):
    return _opaque(st.one_of(
        V._homog_sets(kind),
        st.lists(_coll_ints, max_size=6, unique=True).map(lambda xs: [kind, [["int", x] for x in xs]]),
        st.lists(_strs, min_size=2, max_size=7, unique=True).map(lambda xs: [kind, [["str", x] for x in xs]]),
        st.lists(st.tuples(st.integers(0, 3), _strs), max_size=4, unique=True).map(
            lambda xs: [kind, [["tuple", [["int", a], ["str", b]]] for a, b in xs]]),
        st.lists(st.floats(allow_nan=False, allow_infinity=False, width=16), max_size=4, unique=True).map(
            lambda xs: [kind, [["float", x] for x in xs]]),
        # elements that cannot be ordered against each other (Set.get_hash falls back to element hashes)
        st.lists(st.one_of(st.integers(-2, 9).map(lambda n: ["int", n]), _strs.map(lambda x: ["str", x]),
                           st.binary(max_size=2).map(lambda b: ["bytes", b.hex()]), st.just(["none"])),
                 min_size=2, max_size=5, unique_by=repr).map(lambda xs: [kind, xs]),
    ))


def _containers(children):
    keyish = st.one_of(
        V.hashable_leaf_specs,
        _sets("frozenset"),
        st.lists(V.hashable_leaf_specs, max_size=2).map(lambda xs: ["tuple", xs]),
    )
    lists = st.lists(children, max_size=3).map(lambda xs: ["list", xs])
    return st.one_of(
        lists, lists,
        st.lists(children, max_size=3).map(lambda xs: ["tuple", xs]),
        st.lists(st.tuples(V.hashable_leaf_specs, children), max_size=3, unique_by=lambda kv: repr(kv[0])).map(
            lambda kvs: ["dict", [list(kv) for kv in kvs]]),
        st.lists(st.tuples(keyish, children), max_size=3, unique_by=lambda kv: repr(kv[0])).map(
            lambda kvs: ["dict", [list(kv) for kv in kvs]]),
        st.tuples(st.sampled_from(["Point", "Triple"]), children, children, children).map(
            lambda t: ["nt", t[0], list(t[1:3] if t[0] == "Point" else t[1:4])]),
        st.tuples(st.sampled_from(["Rec", "FrozenRec"]), children, children).map(
            lambda t: ["dc", t[0], {"a": t[1], "b": t[2]}]),
        st.tuples(st.sampled_from(["RecNI", "FrozenNI"]), children, children).map(
            lambda t: ["dc", t[0], {"a": t[1], "c": t[2]}]),
        _sets("set"), _sets("set"), _sets("frozenset"),
    )


# explicit depth levels with opaque groups, so that the mix of kinds is the one written down here
_l0 = _opaque(V.leaf_specs)
_l1 = _opaque(_containers(_l0))
_l2 = _opaque(_containers(st.one_of(_l0, _l1)))
_l3 = _opaque(_containers(st.one_of(_l0, _l1, _l2)))
_l4 = st.lists(st.one_of(_l1, _l3), min_size=1, max_size=2).map(lambda xs: ["list", xs])


def _wrap(t):
    kind, x, y = t
    return {"list": ["list", [x, y]], "tuple": ["tuple", [y, x]], "dict": ["dict", [[["str", "k"], x], [["int", 1], y]]],
            "nt": ["nt", "Point", [x, y]], "dc": ["dc", "Rec", {"a": x, "b": y}],
            "dcni": ["dc", "FrozenNI", {"a": y, "c": x}]}[kind]


# wrapping raises the share of sets below the top level
_wrapped = st.tuples(st.sampled_from(["list", "tuple", "dict", "nt", "dc", "dcni"]), st.one_of(_l1, _l2), st.one_of(_l0, _l1)).map(_wrap)
specs = st.one_of(_l0, _l1, _l2, _opaque(_l2), _l3, _opaque(_l3), _l4, _opaque(_wrapped),
                  _sets("set"), _sets("set"), _sets("frozenset"))
cases = st.fixed_dictionaries({"spec": specs, "perm": st.integers(1, 40)})


# ---------------------------------------------------------------- spec utilities
def _children(spec):
    """(slot setter info) yields child specs of a container spec."""
    k = spec[0]
    if k in ("list", "tuple", "set", "frozenset"):
        return list(spec[1])
    if k == "dict":
        return [x for kv in spec[1] for x in kv]
    if k in ("nt", "sub"):
        return list(spec[2])
    if k == "dc":
        return list(spec[2].values())
    return []


def map_spec(spec, f, top=True):
    """Rebuild spec bottom-up; f(node, top) may return a replacement node."""
    k = spec[0]
    if k in ("list", "tuple", "set", "frozenset"):
        new = [k, [map_spec(s, f, False) for s in spec[1]]]
    elif k == "dict":
        new = [k, [[map_spec(a, f, False), map_spec(b, f, False)] for a, b in spec[1]]]
    elif k in ("nt", "sub"):
        new = [k, spec[1], [map_spec(s, f, False) for s in spec[2]]]
    elif k == "dc":
        new = [k, spec[1], {n: map_spec(s, f, False) for n, s in spec[2].items()}]
    else:
        new = list(spec)
    return f(new, top)


def node_class(node, top):
    if node[0] == "frozenset":
        return "toplevel-frozenset" if top else "nested-frozenset"
    if node[0] == "set" and not top:
        return "nested-set"
    return None


CLASSES = ["toplevel-frozenset", "nested-set", "nested-frozenset"]


def classes_in(spec) -> set:
    found = set()

    def f(node, top):
        c = node_class(node, top)
        if c:
            found.add(c)
        return node

    map_spec(spec, f)
    return found


def canonicalise(spec, keep=None):
    """Replace set nodes whose hashing redun does not canonicalise (all classes except `keep`) by a
    sorted, tagged tuple: a value without any set in that position."""

    def f(node, top):
        c = node_class(node, top)
        if c and c != keep:
            items = sorted(node[1], key=lambda s: json.dumps(s, sort_keys=True))
            return ["tuple", [["str", "$" + node[0]]] + items]
        return node

    return map_spec(spec, f)


def permute(spec, perm: int):
    def f(node, top):
        if node[0] in ("set", "frozenset") and len(node[1]) > 1:
            xs = list(node[1])
            r = 1 + perm % (len(xs) - 1)          # never the identity
            xs = xs[r:] + xs[:r]
            if len(xs) >= 3 and (perm // 7) % 2 == 0:
                xs.reverse()                      # (a reversed rotation of >= 3 distinct items is not the identity)
            return [node[0], xs]
        return node

    return map_spec(spec, f)


def nontrivial(spec) -> bool:
    hit = [False]

    def f(node, top):
        if node[0] in ("set", "frozenset") and sum(1 for e in node[1] if e[0] in ("str", "bytes")) >= 2:
            hit[0] = True
        if node[0] == "dc":
            hit[0] = True
        return node

    map_spec(spec, f)
    return hit[0] or V.spec_depth(spec) >= 3


# ---------------------------------------------------------------- worker pool
class Pool:
    def __init__(self):
        self.procs: list = []
        self.asked = 0

    def start(self):
        env = dict(os.environ)
        env["PYTHONPATH"] = os.pathsep.join([REPO, VERIF_DIR, os.path.join(VERIF_DIR, ".deps")])
        env["PYTHONDONTWRITEBYTECODE"] = "1"    # never writes __pycache__ into the repo or /verif
        env["PYTHONWARNINGS"] = "ignore"
        for seed in SEEDS:
            e = dict(env, PYTHONHASHSEED=seed)
            err = tempfile.TemporaryFile()
            p = subprocess.Popen([sys.executable, WORKER], stdin=subprocess.PIPE, stdout=subprocess.PIPE,
                                 stderr=err, env=e, text=True, bufsize=1, cwd=tempfile.gettempdir())
            self.procs.append((seed, p, err))
        for seed, p, err in self.procs:
            hello = self._read(seed, p, err)
            if str(hello.get("hashseed")) != seed or (hello.get("redun", "") + os.sep) != REPO_REDUN:
                raise HarnessError(f"hash worker misconfigured: {hello} (want seed {seed}, redun {REPO_REDUN})")
        self.asked = 0

    @staticmethod
    def _read(seed, p, err):
        line = p.stdout.readline()
        if not line:
            err.seek(0)
            raise HarnessError(f"hash worker (PYTHONHASHSEED={seed}) died: {err.read()[-800:]!r}")
        return json.loads(line)

    def ask(self, batch: list) -> dict:
        """{seed: [hash | {exc...}, ...]} for a list of specs, every worker in parallel."""
        if not self.procs or self.asked >= RECYCLE:
            self.close()
            self.start()
        self.asked += 1
        line = json.dumps(batch) + "\n"
        for seed, p, err in self.procs:
            try:
                p.stdin.write(line)
                p.stdin.flush()
            except BrokenPipeError:
                pass
        return {seed: self._read(seed, p, err) for seed, p, err in self.procs}

    def close(self):
        for seed, p, err in self.procs:
            try:
                p.stdin.close()
            except Exception:  # noqa: BLE001
                pass
        for seed, p, err in self.procs:
            try:
                p.wait(timeout=5)
            except Exception:  # noqa: BLE001
                p.kill()
                p.wait()
            p.stdout.close()
            err.close()
        self.procs = []


_pool = Pool()
atexit.register(_pool.close)


def inproc_hash(spec):
    from redun.value import get_type_registry

    from vf.core import redun_frame

    try:
        return get_type_registry().get_hash(V.build(json.loads(json.dumps(spec))))
    except Exception as e:  # noqa: BLE001
        where = redun_frame(e)
        if where is None:
            raise
        return {"exc": type(e).__name__, "msg": str(e)[:300], "where": where}


def observe(variants: list) -> list:
    """For each variant spec: {observer: hash}; observers are 'seed=N' workers and 'inproc'."""
    res = _pool.ask(variants)
    out = []
    for i, v in enumerate(variants):
        d = {f"seed={s}": res[s][i] for s in SEEDS}
        d["inproc"] = inproc_hash(v)
        out.append(d)
    return out


def _check_exc(obs: list, case) -> None:
    for d in obs:
        for who, h in d.items():
            if isinstance(h, dict):
                if h.get("where"):
                    raise Violation(f"exc:get_hash:{h['exc']}@{h['where']}",
                                    f"get_hash raised {h['exc']}: {h['msg']} ({who})", case)
                raise HarnessError(f"worker failed outside redun: {h}")


def instability(obs: list):
    """None if all hashes equal, else ('seed'|'order', description)."""
    first = obs[0]
    if len(set(first.values())) > 1:
        return "seed", f"same construction, different interpreters: { {k: v[:8] for k, v in first.items()} }"
    for d in obs[1:]:
        if len(set(d.values())) > 1:
            return "seed", f"same construction, different interpreters: { {k: v[:8] for k, v in d.items()} }"
    allh = {h for d in obs for h in d.values()}
    if len(allh) > 1:
        return "order", (f"insertion order changes the hash: listed order -> {first['inproc'][:8]}, "
                         f"permuted -> {obs[1]['inproc'][:8]}")
    return None


def oracle(ctx: Ctx, case) -> list:
    spec, perm = case["spec"], int(case["perm"])
    present = classes_in(spec)
    raw = [spec, permute(spec, perm)]
    variants = list(raw)
    if present:
        canon = canonicalise(spec)
        variants += [canon, permute(canon, perm)]
    obs = observe(variants)
    _check_exc(obs, case)
    top = spec[0]
    if present:
        bad = instability(obs[2:])
        if bad:
            raise Violation(f"unstable:{bad[0]}:{top}", f"{canon!r} (sets replaced by sorted tuples): {bad[1]}", case)
    bad = instability(obs[:2])
    if bad:
        if not present:
            raise Violation(f"unstable:{bad[0]}:{top}", f"{spec!r}: {bad[1]}", case)
        for c in CLASSES:
            if c not in present:
                continue
            only = canonicalise(spec, keep=c)
            o2 = observe([only, permute(only, perm)])
            _check_exc(o2, case)
            b2 = instability(o2)
            if b2:
                raise Violation(f"unsorted-set:{c}", f"{only!r}: {b2[1]}", case)
        raise Violation("unsorted-set:unattributed", f"{spec!r}: {bad[1]}", case)
    return sorted(present)


def run_case(ctx: Ctx, case) -> None:
    spec = case["spec"]
    present = classes_in(spec)
    ctx.case(case, labels=[f"top:{spec[0]}"] + [f"has:{c}" for c in sorted(present)]
             + (["has:toplevel-set"] if spec[0] == "set" else [])
             + ([] if present else ["no-uncanonicalised-set"]),
             nontrivial=nontrivial(spec))
    oracle(ctx, case)


# ---------------------------------------------------------------- pinned hashes
# [spec, hash] recorded from the unchanged tree (CPython 3.12, pickle protocol 3 byte streams)
GOLDEN = [
    [["int", 0], "8106e76113e476483805f6a4185aab9daf283419"],
    [["int", 1], "a8396c89067d71e5ec296e67c248cbf07f5669f0"],
    [["int", -1], "249de3317e9916cfbbf7c592aebf8c222f12f2bb"],
    [["int", 255], "82e35d7f63f3317727148b1e45645d86e8fb3bb6"],
    [["int", 256], "411f53ff105cb7182790d90daf44ea97c3b269bf"],
    [["int", 65536], "d611e938151e22a8d8c3192f541863d862d78fe7"],
    [["int", 2147483648], "56559e103f6e2c200e1d577ada27fd816c6872b2"],
    [["int", 100000000000000000000], "fd5bb56205f67e7c79339366aff27fb45496e464"],
    [["int", -100000000000000000000], "c3aa47cf8d822fddef7da1ad76c381cf8875c3a8"],
    [["bool", True], "4ea83061d616c782dfc446a993f359ae97cac6c8"],
    [["bool", False], "4b0801b82e09ef3af7a2be73506b07fe7a7d5924"],
    [["none"], "8ca852f0d79ba0485e9ac2c9c175853adf296425"],
    [["float", 0.0], "ef28ff0df1c5ee4369bb7496f2a024a0dce0c514"],
    [["float", 1.5], "84e28f90daab6b7d40eab86a673cc2a1c9a6c6af"],
    [["float", -2.25], "3e694c3b9a9d37752fe1d390e78ca8223794b26a"],
    [["str", ""], "adbf050187c626a8a9dcc17abe2f2829da2d6620"],
    [["str", "a"], "665147bbde548bc27d7c42fdf1bcbef958158a8b"],
    [["str", "hello world"], "efca6556a3a9c37c776a35f19bac234327ca6d25"],
    [["str", "\u00e9"], "1083b8697dcd53dca910e56d8383201c78266b16"],
    [["str", "xxxxxxxxxxxxxxxxxxxxxxxxxxxxxxxxxxxxxxxxxxxxxxxxxxxxxxxxxxxxxxxxxxxxxxxxxxxxxxxxxxxxxxxxxxxxxxxxxxxxxxxxxxxxxxxxxxxxxxxxxxxxxxxxxxxxxxxxxxxxxxxxxxxxxxxxxxxxxxxxxxxxxxxxxxxxxxxxxxxxxxxxxxxxxxxxxxxxxxxxxxxxxxxxxxxxxxxxxxxxxxxxxxxxxxxxxxxxxxxxxxxxxxxxxxxxxxxxxxxxxxxxxxxxxxxxxxxxxxxxxxxxxxxxxxxxxxxxxxxx"], "a17e8d87b1ffa63d95a7a12f6ddb06dd0c926eae"],
    [["bytes", ""], "f5d06282aba5d2a29061f6c9d83391726b0f9974"],
    [["bytes", "00ff"], "b56f8edbad0c742d09307caf6a139375b64633b3"],
    [["bytes", "616161616161616161616161616161616161616161616161616161616161616161616161616161616161616161616161616161616161616161616161616161616161616161616161616161616161616161616161616161616161616161616161616161616161616161616161616161616161616161616161616161616161616161616161616161616161616161616161616161616161616161616161616161616161616161616161616161616161616161616161616161616161616161616161616161616161616161616161616161616161616161616161616161616161616161616161616161616161616161616161616161616161616161616161616161616161616161616161616161616161616161616161616161616161616161616161616161616161616161616161"], "c2322981f3a998ec7385ddb072d112d88c0289bd"],
    [["list", []], "25efb9f780c3379df62cf6617a5b613e510c8a68"],
    [["list", [["int", 1], ["str", "a"], ["none"]]], "e9c4d471b0eadcb2bea3855efda413b4b592c0d8"],
    [["tuple", []], "2b633b61acc0b5eecd0b8c31f25afe91921bcc8b"],
    [["tuple", [["int", 1], ["int", 2]]], "380f50d973e6c8e1ba17705fe6e49a9a18dd531b"],
    [["tuple", [["int", 1], ["int", 2], ["int", 3], ["int", 4]]], "1f3013e5884af93272afdb2b81e7f73d3e31b2bb"],
    [["dict", []], "4c105568eb98a8a6635e0a23aa8b54ffa155293a"],
    [["dict", [[["str", "a"], ["int", 1]], [["str", "b"], ["list", [["int", 2]]]]]], "96cc64962c85beba8a1bc3e0de2c3cdc96423784"],
    [["set", []], "e7ba2cc542b2a61d7acb7b7bf36877084e4c9973"],
    [["set", [["int", 3], ["int", 1], ["int", 2]]], "0141c474b340215635cbff413fd50b019f3d6244"],
    [["set", [["str", "b"], ["str", "a"], ["str", "eee"]]], "ea6a74bd1f84650b3ad4f321c61c913d6979cdff"],
    [["nt", "Point", [["int", 1], ["int", 2]]], "94a33f33b8244402d441777f94a4f591567f3ce8"],
    [["nt", "Triple", [["int", 1], ["str", "a"], ["none"]]], "3b9c722665abb0a75be9f060369d3dfe98103dc7"],
    [["dc", "Rec", {"a": ["int", 1], "b": ["str", "x"]}], "c151be3d3905ff5c9bb07d0cae3bea81d18d61d5"],
    [["dc", "FrozenRec", {"a": ["list", [["int", 1]]], "b": ["none"]}], "6a4a5e288750a64cad3f660756db4b645d5acef5"],
    [["dc", "RecNI", {"a": ["int", 1], "c": ["int", 2]}], "d049f53e93248d0dd1583960b8b0c499328ed92e"],
    [["list", [["str", "ab"], ["str", "ab"], ["tuple", [["str", "ab"]]]]], "8ff7ec2fa697a94eade6a2936b5d0a47c2c074f0"],
    [["list", [["list", [["list", [["int", 1]]]]], ["dict", [[["int", 1], ["tuple", [["str", "k"]]]]]]]], "91cf30bc9356658dbe65cddef3845283893ab976"],
]


def golden_check(ctx: Ctx, only=None) -> None:
    idx = range(len(GOLDEN)) if only is None else [only]
    batch = [GOLDEN[i][0] for i in idx]
    obs = observe(batch)
    for i, d in zip(idx, obs):
        case = {"golden": i}
        _check_exc([d], case)
        spec, want = GOLDEN[i]
        ctx.case({"golden": i, "spec": spec}, labels=["golden"], nontrivial=False)
        wrong = {k: v for k, v in d.items() if v != want}
        if wrong:
            k, v = sorted(wrong.items())[0]
            raise Violation(f"golden:{spec[0]}", f"{spec!r} hashed to {want} when recorded (unchanged tree, earlier "
                            f"process) but now to {v} ({k}); stored cache entries keyed by the old hash are lost", case)


def check(ctx: Ctx) -> None:
    global RECYCLE
    RECYCLE = ctx.pick(500, 1000)
    try:
        ctx.given(cases, lambda c: run_case(ctx, c), ctx.n(1500, 32000))
        if ctx.shard in (None, 0):
            golden_check(ctx)
    finally:
        _pool.close()


def replay(ctx: Ctx, case) -> None:
    if isinstance(case, dict) and "golden" in case:
        golden_check(ctx, only=int(case["golden"]))
    else:
        oracle(ctx, case)
