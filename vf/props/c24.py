"""C24 — tag history behaves like a key-value (multi)set; the tag edit graph stays acyclic."""
from __future__ import annotations

import json
import shutil

from hypothesis import strategies as st

from vf.core import Ctx, HarnessError, Violation, redun_frame
from vf.lab import dbx

ID = "C24"
LEVEL = "exploration"
RULE = (
    "Generated operation histories (<=20 ops, JSON lists) over 3 real entities (the Execution, the Job "
    "and the result Value of a tiny workflow run once on a fresh SQLite backend; every case works on "
    "its own copy of that database), 3 keys and a pool of 20 JSON values (1 / 1.0 / true / false / 0 / "
    "\"1\" / \"true\" / null / \"\" / nested lists and dicts, one dict in two key orders; values travel "
    "in the case as JSON text). Three generator modes: narrow (mostly one entity, 2 keys, 3-5 values, so "
    "pairs recur), wide (whole pools), dup (a command may name the same pair twice). Operations are "
    "issued exactly as the CLI does: add = record_tags(type, id, pairs, new=True) [redun tag add], "
    "update = record_tags(type, id, pairs, update=True) [redun tag update], rm = delete_tags(id, pairs, "
    "keys) with pairs and/or bare keys [redun tag rm]; each command may name 1-2 entities (the CLI "
    "loops over them) and 1-3 pairs (duplicates within one command included); 'reopen' closes the "
    "backend and opens the file again (every CLI command is its own process). Oracle: reference model "
    "entity -> set of (key, canonical JSON text of value): add inserts, update replaces every value of "
    "the named keys, rm removes the named pairs / every pair of the named keys. After every op the SET "
    "of current pairs from get_tags equals the model for every entity (multiplicity is not asserted) "
    "and the TagEdit graph has no cycle (checked over all rows). Value identity = canonical JSON text "
    "(json.dumps sort_keys, compact): that is what hash_tag hashes and what the SQLite column stores "
    "and compares, so 1, 1.0 and true are three different values and key order in dicts is irrelevant. "
    "Non-trivial = the history re-adds (add/update) a pair that was current earlier on that entity and "
    "had been superseded or deleted, or updates a key to a value it currently has."
)
ASSUMPTIONS = [
    "SQLite backend only (on PostgreSQL the JSONB column compares 1 and 1.0 as equal numbers; not covered)",
    "tag values are finite JSON values (no NaN/Infinity, ints within 64 bit)",
    "operations reach the backend exactly as cli.py tag_add/tag_update/tag_rm_command issue them; "
    "argument parsing (C34) is not part of this check",
    "one command at a time (no concurrent writers)",
]
MANIFEST = {"technique": "model-based testing: generated tag histories vs. reference key-value set (Hypothesis)"}

KEYS = ["k0", "k1", "k2"]
# Values travel through cases as JSON *text* (keeps 1 vs 1.0 and the key order of dicts through
# replay files); the first five are the "narrow" pool.
VALUES = [
    "1", "1.0", "true", '{"a":1,"b":[1.0,{"c":null}]}', '{"b":[1.0,{"c":null}],"a":1}',
    "null", '"1"', '"a"', '[1,"a"]', "0", "false", '"true"', '""', "[1.0]", "[true]", "[]", "{}", "2.5",
    '{"a":1.0}', '"null"',
]


def val(text: str):
    return json.loads(text)


def canon_value(v) -> str:
    return json.dumps(v, sort_keys=True, separators=(",", ":"))


def cpair(p) -> tuple:
    return (p[0], canon_value(val(p[1])))


# ------------------------------------------------------------------ generator
def _ops(mode: str):
    """mode: 'narrow' (mostly one entity, 2 keys, 3-5 values: many re-adds), 'wide' (whole pools),
    'dup' (narrow, and a command may repeat a pair: redun tag add ID a=1 a=1)."""
    if mode == "wide":
        value = st.one_of(st.sampled_from(VALUES[:5]), st.sampled_from(VALUES[:9]), st.sampled_from(VALUES))
        key = st.sampled_from(KEYS)
        ents = st.lists(st.integers(0, 2), min_size=1, max_size=2, unique=True)
    else:
        value = st.one_of(st.sampled_from(VALUES[:3]), st.sampled_from(VALUES[:3]), st.sampled_from(VALUES[:5]))
        key = st.sampled_from(KEYS[:2])
        ents = st.one_of(st.just([0]), st.just([0]), st.lists(st.integers(0, 2), min_size=1, max_size=2, unique=True))
    pair = st.tuples(key, value).map(list)
    uniq = None if mode == "dup" else cpair
    pairs = st.one_of(st.lists(pair, min_size=1, max_size=1),
                      st.lists(pair, min_size=1, max_size=3, unique_by=uniq))

    @st.composite
    def rm_op(draw):
        how = draw(st.sampled_from(["pair", "pair", "key", "both"]))
        ps = draw(st.lists(pair, min_size=1, max_size=2, unique_by=uniq)) if how in ("pair", "both") else []
        ks = draw(st.lists(key, min_size=1, max_size=2, unique=True)) if how in ("key", "both") else []
        return ["rm", draw(ents), ps, ks]

    add = st.tuples(st.just("add"), ents, pairs).map(list)
    upd = st.tuples(st.just("update"), ents, pairs).map(list)
    return st.one_of(add, add, upd, upd, rm_op(), rm_op(), st.just(["reopen"]))


def _hist(op, lo=1, hi=20):
    # uniform over lengths (st.lists alone is heavily biased to min_size); shrinks towards lo
    return st.integers(lo, hi).flatmap(lambda n: st.lists(op, min_size=n, max_size=n))


histories = st.one_of(*[_hist(_ops(m)) for m in ("narrow", "narrow", "wide", "wide", "dup")])


# ------------------------------------------------------------------ entities (built once per process)
_base: dict = {}


def _entities():
    """Run a tiny workflow once; returns (db path, [(TagEntity, id) x3])."""
    if not _base:
        from redun import Task
        from redun.backends.base import TagEntity
        from redun.backends.db import Execution, Job, Value
        from redun.task import get_task_registry
        from redun.value import get_type_registry
        from vf.lab import ctl

        def inc(x):
            return x + 1

        t = Task(inc, name="inc", namespace="vf_c24", source="def inc(x):\n    return x + 1\n")
        get_task_registry().add(t)
        b = dbx.fresh_backend()
        sched = ctl.new_scheduler(backend=b)
        sched.load()
        if sched.run(t(41)) != 42:
            raise HarnessError("setup workflow did not return 42")
        ex = b.session.query(Execution).one()
        job = b.session.query(Job).filter_by(execution_id=ex.id).first()
        vh = get_type_registry().get_hash(42)
        if b.session.query(Value).filter_by(value_hash=vh).one_or_none() is None:
            raise HarnessError("result value 42 was not recorded")
        _base["ents"] = [(TagEntity.Execution, ex.id), (TagEntity.Job, job.id), (TagEntity.Value, vh)]
        _base["path"] = b.db_uri[len("sqlite:///"):]
        dbx.close_backend(b)
    return _base["path"], _base["ents"]


class Real:
    def __init__(self):
        base, self.ents = _entities()
        self.path = dbx.new_db_path()
        shutil.copyfile(base, self.path)
        self.b = dbx.open_backend(self.path)

    def reopen(self):
        dbx.close_backend(self.b)
        self.b = dbx.open_backend(self.path)

    def close(self):
        dbx.discard_backend(self.b)

    def apply(self, o):
        kind = o[0]
        if kind == "reopen":
            self.reopen()
            return
        dup = len({cpair(p) for p in o[2]}) < len(o[2])
        for ei in o[1]:
            etype, eid = self.ents[ei]
            key_values = [(k, val(v)) for k, v in o[2]]
            try:
                if kind == "add":
                    self.b.record_tags(etype, eid, key_values, new=True)
                elif kind == "update":
                    self.b.record_tags(etype, eid, key_values, update=True)
                elif kind == "rm":
                    self.b.delete_tags(eid, key_values, list(o[3]))
                else:
                    raise AssertionError(o)
            except Exception as exc:  # noqa: BLE001
                if dup and redun_frame(exc):
                    # input class: the same key=value given twice in one command
                    raise Violation(f"dup-pair-in-command:{kind}:{type(exc).__name__}",
                                    f"{o}: {type(exc).__name__}: {str(exc)[:200]}") from exc
                raise

    def current(self):
        ids = [eid for _, eid in self.ents]
        tags = self.b.get_tags(ids)
        out = []
        for eid in ids:
            tm = tags.get(eid)
            out.append(sorted({(k, canon_value(v)) for k, v in tm} if tm is not None else set()))
        return out

    def edges(self):
        from redun.backends.db import TagEdit

        return [(p, c) for p, c in self.b.session.query(TagEdit.parent_id, TagEdit.child_id).all()]


class Model:
    def __init__(self):
        self.cur = [set(), set(), set()]
        self.past = [set(), set(), set()]     # pairs that were current at some point and are not now
        self.readd = 0
        self.update_equal = 0
        self.labels = set()

    def apply(self, o):
        kind = o[0]
        if kind == "reopen":
            return
        for ei in o[1]:
            cur = self.cur[ei]
            before = set(cur)
            ps = {cpair(p) for p in o[2]}
            if any(val(v) is None for _, v in o[2]):
                self.labels.add(f"null-value:{kind}")
            if len(ps) < len(o[2]):
                self.labels.add("dup-in-command")
            if kind in ("add", "update"):
                if ps & self.past[ei] and not ps <= cur:
                    if (ps & self.past[ei]) - cur:
                        self.readd += 1
                if kind == "update":
                    keys = {k for k, _ in ps}
                    if ps & cur:
                        self.update_equal += 1
                    cur.difference_update({p for p in cur if p[0] in keys})
                elif ps & cur:
                    self.labels.add("add-existing")
                cur.update(ps)
            else:
                keys = set(o[3])
                if ps - cur:
                    self.labels.add("rm-absent-pair")
                cur.difference_update(ps)
                cur.difference_update({p for p in cur if p[0] in keys})
            self.past[ei] |= before - cur
            self.past[ei] -= cur
            if len({k for k, _ in cur}) < len(cur):
                self.labels.add("multi-value-key")

    def current(self):
        return [sorted(s) for s in self.cur]


def find_cycle(edges):
    graph: dict = {}
    for p, c in edges:
        graph.setdefault(p, []).append(c)
    state: dict = {}
    for root in list(graph):
        if root in state:
            continue
        stack = [(root, iter(graph.get(root, ())))]
        state[root] = 1
        while stack:
            node, it = stack[-1]
            for nxt in it:
                s = state.get(nxt)
                if s == 1:
                    return [n for n, _ in stack] + [nxt]
                if s is None:
                    state[nxt] = 1
                    stack.append((nxt, iter(graph.get(nxt, ()))))
                    break
            else:
                state[node] = 2
                stack.pop()
    return None


def classify(o, ei, real_set, model_set) -> str:
    """Finding key for a mismatch: op kind + direction + value class (not a stack hash)."""
    extra = sorted(set(real_set) - set(model_set))
    missing = sorted(set(model_set) - set(real_set))
    direction = "stale" if extra and not missing else ("lost" if missing and not extra else "both")
    kind = o[0]
    if kind == "rm":
        kind = "rm-pair" if o[2] and not o[3] else ("rm-key" if o[3] and not o[2] else "rm-mixed")
    vclass = ""
    if o[0] == "rm" and extra:
        named = {cpair(p) for p in o[2]}
        hit = [p for p in extra if p in named]
        if hit and len(hit) == len(extra) and not missing and all(p[1] == "null" for p in hit):
            # one input class whatever else the command names: a pair whose value is JSON null
            return "tags-stale:rm-pair:null-value"
    return f"tags-{direction}:{kind}{vclass}"


def oracle(ctx: Ctx, ops: list) -> Model:
    model = Model()
    real = Real()
    try:
        with ctx.no_raise("initial get_tags", ops):
            if real.current() != model.current():
                raise HarnessError("fresh entities already carry tags")
        for i, o in enumerate(ops):
            model.apply(o)
            with ctx.no_raise(f"tag-{o[0]}", ops):
                real.apply(o)
            with ctx.no_raise("get_tags", ops):
                got = real.current()
            want = model.current()
            for ei in range(3):
                if got[ei] != want[ei]:
                    raise Violation(
                        classify(o, ei, got[ei], want[ei]),
                        f"after op {i} {o}: entity {ei} ({real.ents[ei][0].name}) current tags "
                        f"{got[ei]} != model {want[ei]}", ops)
            with ctx.no_raise("TagEdit query", ops):
                cyc = find_cycle(real.edges())
            if cyc:
                raise Violation("tagedit-cycle", f"after op {i} {o}: TagEdit cycle {[h[:8] for h in cyc]}", ops)
    finally:
        real.close()
    return model


def normalise(case) -> list:
    return [[x if not isinstance(x, tuple) else list(x) for x in o] for o in case]


def run_case(ctx: Ctx, ops: list) -> None:
    model = None
    try:
        model = oracle(ctx, ops)
    finally:
        labels = [f"op:{k}" for k in sorted({o[0] for o in ops})]
        if any(o[0] == "rm" and o[3] for o in ops):
            labels.append("rm-by-key")
        if any(o[0] == "rm" and o[2] for o in ops):
            labels.append("rm-by-pair")
        nt = False
        if model is not None:
            labels += sorted(model.labels)
            if model.readd:
                labels.append("readd-superseded")
            if model.update_equal:
                labels.append("update-equal")
            nt = bool(model.readd or model.update_equal)
        ctx.case(ops, labels=labels, nontrivial=nt)


def check(ctx: Ctx) -> None:
    ctx.given(histories, lambda ops: run_case(ctx, ops), ctx.n(400, 16000))


def replay(ctx: Ctx, case) -> None:
    oracle(ctx, normalise(case))
