#!/bin/bash
# helper: regenerate MANIFEST.json and validate it and the evidence files
cd /verif
PYTHONPATH=/repo:/verif:/verif/.deps /venv/bin/python -m vf.manifest
PYTHONPATH=/verif/.deps /venv/bin/python - <<'PY'
import json, jsonschema, glob
jsonschema.validate(json.load(open('/verif/MANIFEST.json')), json.load(open('/root/.vp/MANIFEST.schema.json')))
s=json.load(open('/root/.vp/EVIDENCE.schema.json'))
for f in sorted(glob.glob('/verif/evidence/*.json')):
    try: jsonschema.validate(json.load(open(f)), s)
    except Exception as e: print("INVALID", f, str(e)[:200])
print("schemas ok")
PY
